"""Regenerates MANIFEST.json from the table below (keeps it valid at all times)."""
import json

CHECKS = {}


def add(pid, category, text, note, technique, design_ref):
    CHECKS[pid] = dict(category=category, text=text, note=note, technique=technique, design_ref=design_ref)


add("C12", "model_checking",
    "Explicit-state exhaustive enumeration of every valid labelled pointer structure (5 age roles, <=2 households, all partner "
    "matchings, all 0-2 parent pointers, all subsets of self-sufficient children) up to 4 persons (5 in the thorough tier) executed "
    "on the real grouping functions in all row orders and through compute_taxes_and_transfers, each compared with a union-find "
    "reference written from the unit definitions; nesting and cross-household collisions checked on every state.",
    "Trusted: the reference model mc/ref/units.py and the validity scoping of DESIGN.md 1.1; nothing is claimed beyond 5 persons "
    "(the 'randomly beyond five' clause is sampling and outside this technique).",
    "bounded exhaustive enumeration of input structures against a reference model (explicit-state, in-process)", "2/C12")

add("C07", "model_checking",
    "State machine over calendar days: state = environment(d), transition d -> d+1. Every visited day (quick: every calendar day from 2015-01-01, before that every change date +-1, "
    "month starts, leap days, year ends; thorough: every day 1980-01-01 .. last key + 1 year) the real set_up_policy_environment(d) is "
    "compared leaf by leaf with an independent reference resolver (deviations, vorjahr/jahresanfang look-ups, rounding specs, piecewise "
    "schedules in exact Fractions, date-derived values) and with the AST-scanned rule registry (exactly one implementation per name, "
    "inclusive bounds); consecutive days satisfy the stutter invariant; overlap rejection is checked on all 225 interval pairs.",
    "Trusted: mc/ref/params.py and mc/ref/registry.py (written from the parameter-file conventions, no shared code); YAML parse cache "
    "(cross-checked against uncached runs each run).",
    "explicit-state exploration of the day-indexed state machine with per-state conformance to a reference model", "2/C07")

add("C18", "model_checking",
    "Exhaustive over every piecewise_* schedule, every date at which its resolved definition changes and every piece: the arrays in the "
    "environment are compared with an exact Fractions reference built from the YAML text, the real piecewise_polynomial / tariff / surcharge "
    "rules are evaluated at every threshold, +-1 ulp, +-0.01, interior quantiles and a euro lattice and compared with the exact value; "
    "well-formedness (strictly increasing thresholds covering the real line), continuity, monotonicity, convexity, top-rate and the "
    "surcharge cap are decided per interval from the coefficients (degree <= 2, so interval ends decide the whole interval).",
    "Trusted: mc/ref/params.py Schedule (exact arithmetic). 'All real arguments' is covered per interval by coefficient obligations plus "
    "point evaluation, not by enumeration of reals.",
    "exhaustive enumeration of schedule versions x pieces x critical points against an exact reference; per-interval coefficient checks", "2/C18")

add("C11", "model_checking",
    "Exhaustive over all group-id assignments of arrays up to length 5 (6 thorough) on a sparse unsorted id alphabet x value columns "
    "(distinct dyadic floats/ints that identify the member set, all boolean patterns, dates, full small alphabets for short arrays) x all "
    "seven aggregation kinds on the real grouped_* functions; all pointer columns over {-1,-5,valid ids} x all store orders for sum_by_p_id "
    "and join_numpy; every aggregation node (explicit spec, automatic sum, by-p_id) of all-nodes simulations re-derived from its parent "
    "columns; precedence user > built-in > automatic and data > all through compute_taxes_and_transfers.",
    "Trusted: mc/ref/aggregate.py (dict of member lists, math.fsum). Values outside the alphabets are not covered; count dtype is not constrained.",
    "bounded exhaustive enumeration of group/pointer assignments against a reference model", "2/C11")

add("C10", "model_checking",
    "Exhaustive over every rounding specification entry in every parameter file (thorough: re-checked at every later change date) x a value "
    "alphabet (grid points, half-way points, +-epsilon, +-1 ulp, negatives, large values) pushed through the real rounding wrapper and judged "
    "by an exact Fractions oracle (on the grid, right direction, error below one step, offset added once, fixed point on grid values); every "
    "rule carrying a rounding key in all-nodes simulations is judged against its own unrounded output on the same inputs with rounding on and "
    "off; derived time-unit nodes must equal the converted rounded parent bit for bit; a missing specification must raise.",
    "Trusted: the oracle `judge` in mc/checks/c10.py and mc/ref/params.py for the statutory spec. Values outside the alphabet and households "
    "outside the library are not covered.",
    "bounded exhaustive enumeration (spec versions x value alphabet; rules x households x dates) against an exact-arithmetic oracle", "2/C10")

add("C19", "model_checking",
    "Exhaustive wage lattice (1 EUR steps, thorough 0.25 EUR, from 0 to the highest assessment ceiling + 1000) plus every statutory boundary "
    "(minijob limit, upper transition-zone limit, both ceilings) +-0.01, +-1 and +-1 ulp, for east/west x with/without children at every change "
    "date >= 2015 (thorough: first and last day of every class), simulated through compute_taxes_and_transfers; on consecutive lattice points "
    "each employee contribution must be non-negative, non-decreasing, zero up to the minijob limit, constant above its ceiling, meet the regular "
    "contribution at the upper zone boundary within one cent, and employee + employer must equal the total inside the zone.",
    "Monotonicity between lattice points is not proved, only checked at the stated step and at all boundaries; one employee profile (age 35, "
    "statutory insurance, not self-employed / retired).",
    "bounded exhaustive sweep of the wage lattice x configurations with an invariant on consecutive states", "2/C19")

add("C20", "fault_enumeration",
    "Exhaustive fault injection through compute_taxes_and_transfers: every fault class of the property (missing/duplicate p_id, each of the "
    "four foreign keys dangling or pointing to oneself, every _hh input varying within a household, contradictory joint-assessment flags, "
    "each required column missing, duplicated column names, every non-convertible dtype per typed input) at every eligible row/column of the "
    "base populations, plus all pairs of fault classes: each must raise. Every lossless dtype variant (int8..uint64, float32, int for whole "
    "floats, 0/1 for booleans) of every required input column must leave all default targets bit-identical and be announced when converted.",
    "A fault counts as rejected when the call raises before returning. Base populations are the library households (2 quick, 3 thorough) on one date.",
    "exhaustive enumeration of single faults and fault pairs at every position (fault-injection model checking of the input validation)", "2/C20")

add("C09", "model_checking",
    "Two exhaustive enumerations over programs, both executing the real make_vectorizable: (A) every internal policy function, with each "
    "atomic test turned into a harness-controlled choice so that all 2^m control-flow paths (m <= 12) are run in scalar form and, at once, in "
    "array form and compared position by position; (B) every program of the documented restricted style up to depth 2 (if/elif/else with "
    "assignment, augmented assignment or return, nested if, conditional expressions, and/or/not, min/max/sum/any/all) on all 216 argument "
    "combinations. Array forms must agree everywhere or fail loudly. (C) make_vectorizable on every real function must leave module "
    "globals, the rule registry, the function object and a later simulation unchanged.",
    "Any exception at rewrite or call time counts as a loud failure. Argument values in (A) are per-position distinct defaults (paths are "
    "exhaustive, values are not). Programs deeper than 2 are not covered.",
    "exhaustive enumeration of control-flow paths of every rule and of all programs of a bounded grammar, scalar vs. rewritten form", "2/C09")

add("C03", "model_checking",
    "Per date and scalar rule, the set of argument tuples the rule actually receives in the population universe (library households x "
    "single-attribute deviations) is harvested from all-nodes simulations; then every ordered pair (first row, other row) of those tuples "
    "is pushed through the production wrapper (_vectorize_func + partialled parameters) as a two-row array: the second element must equal "
    "the scalar rule's value exactly, the dtype must be the same for every first row and match the declared result type. At graph level "
    "every rule column of every simulation is re-derived row by row from its parent columns.",
    "Argument tuples outside the harvested universe are not covered (pairs are exhaustive up to the stated cap per rule, values are the "
    "universe's). Rules only active before 2015 are not exercised.",
    "bounded exhaustive enumeration of (first row, row) pairs per rule against the scalar rule as reference", "2/C03")

add("C01", "model_checking",
    "Differential exploration, real vs. real: every library household and multi-household combination (up to 6 rows) is simulated in ALL row "
    "permutations at several change dates (thorough: every change date >= 2015) with all nodes of the default-target graph requested; "
    "single-attribute deviations of every household are simulated in all rotations so that every row comes first once; six index labellings "
    "in two row orders. Results keyed by p_id must agree (ints/bools/dates/dtypes exactly, floats to 4 ulp), id columns must induce the "
    "same partition, and there must be one output row per input row in input order.",
    "Populations are the library households and their k=1 deviations; float sums over >= 3 group members may re-associate (4 ulp). "
    "All-order exploration of the grouping functions themselves on all structures is in C12.",
    "exhaustive enumeration of row permutations / index labellings of bounded populations with a differential oracle", "2/C01")

add("C02", "model_checking",
    "Differential exploration, real vs. real: all ordered pairs (A, B) of library households with disjoint ids x placements (B after A, B "
    "before A in every rotation of B so that each B row is the first row once, interleaved) x dates: every node of A in the joint "
    "simulation must equal A simulated alone bit for bit (id nodes as partitions; no id shared between the two households). Seven "
    "consistent relabellings of p_id / hh_id (shift, affine, order-reversing, sparse, p-only, hh-only, zero-based ranks) applied to all "
    "pointer columns must change only labels. Direct enumeration of the derived-id arithmetic (bg_id, wthh_id) incl. up to 12 "
    "self-sufficient children in one family unit.",
    "Populations are the library households; ids stay below 10^6 / 10^4 (memory of numpy_groupies).",
    "exhaustive enumeration of household pairs x placements x relabellings with a differential oracle", "2/C02")

add("C15", "model_checking",
    "Exhaustive over library households x every individual-level input varied for one person at a time (so that members of a group differ in "
    "exactly that input; every alternative of a reduced alphabet in the thorough tier) x change dates: all nodes of the default-target graph are "
    "computed and every node whose name carries a group suffix must take one value per group of the matching *_id. Non-constant nodes are "
    "attributed to the root node (no non-constant parent in the DAG) and the varied input.",
    "Group membership comes from the *_id nodes of the same run. Known findings are keyed (root node, varied input); downstream nodes of a "
    "known root are not reported separately for that input.",
    "bounded exhaustive enumeration of single-member deviations with an invariant checked on every state", "2/C15")

add("C17", "model_checking",
    "Exhaustive sweep: eight household scenarios (couples with children incl. a self-sufficient child = two needs units in one household, "
    "retired couple, single, single parent with/without maintenance, pensioner, three generations) x grids of wages, partner wage, rent, "
    "wealth and pension points that cross the break-even points of the three priority checks x change dates >= 2015, simulated through the "
    "real API; invariant on every person of every state: no ALG II/Buergergeld together with Wohngeld or Kinderzuschlag, no Grundsicherung "
    "with any of these, Kinderzuschlag only where a Kinderzuschlag priority flag holds, every Bedarfsgemeinschaft inside one Wohngeld "
    "part-household, one regime per Bedarfsgemeinschaft. The run fails as vacuous unless all regimes are visited.",
    "Grid values and scenarios as listed in the evidence bound; a person 'receives' a group-level benefit when the group-level column is "
    "positive in that person's row.",
    "bounded exhaustive sweep of the input grid with a safety invariant checked in every state; non-vacuity measured", "2/C17")

add("C16", "model_checking",
    "Exhaustive corner stages (every age 18-100 as worker / retiree / without income, children aged 0-24, 0-10 children for couples and single "
    "parents, incomes 0..1e7, wealth 0..1e8, negative rental income, unemployment and parental leave with extreme previous incomes), the "
    "library households and their single-attribute deviations, at the first and last day of change-date classes >= 2015, all nodes computed; "
    "invariants on every state: every float node finite, every default target >= 0, post-priority benefits <= pre-priority entitlements, "
    "employee contributions within rate x ceiling of the date, Elterngeld <= maximum plus bonuses, Kindergeld <= claims x highest rate.",
    "Caps are computed from the parameters of the date as stated in the evidence assumptions (coarse for health/care insurance, where C19 checks "
    "the exact shape).",
    "bounded exhaustive enumeration of corner populations with invariants checked in every state", "2/C16")

add("C08", "model_checking",
    "Per change-date class >= 2015 (first and last day; C07's stutter invariant makes each interval one equivalence class): (a) the dependency "
    "graph of the default targets over the documented inputs is acyclic, every leaf is a documented input (or parameter-only rule), every rule "
    "with a rounding key has its specification; (b) every policy rule in that graph is executed on ALL control-flow paths (atomic tests are "
    "harness-controlled choices, <= 2^12 paths) with the date's real parameters behind a recording proxy: a look-up of a literal parameter key "
    "that does not exist at that date is a violation, whichever branch real data would select; (c) the library households and their k=1 "
    "deviations are simulated for the default targets and must not raise.",
    "Path mode only counts string-literal keys on *_params dictionaries (data-indexed look-ups are exercised by the population runs); "
    "membership tests on parameter dictionaries stay real. Populations are the library universe.",
    "exhaustive exploration of rule control-flow paths x change-date classes under a recording parameter proxy, plus bounded population runs", "2/C08")

add("C13", "model_checking",
    "Exhaustive over every name with a time suffix (with or without group suffix) among the nodes and data columns of the default-target graph x "
    "change dates x household sets: all four unit variants are requested together and must differ exactly by 12 / (365.25/7) / 365.25 per year "
    "(1e-12 relative) and must all be available; every timed float input is supplied in each of the three other units and all nodes must be "
    "reproduced (1e-9 relative, generic values, rounding off; integers, booleans, id partitions exactly); automatic group sums of all four units "
    "equal the group sums of the individual-level variants; the 12 converters are compared with exact Fractions incl. all round trips.",
    "Inputs supplied in another unit are given generic (non-threshold) values because a unit conversion changes last bits, which thresholds and "
    "floor/ceil steps inside rules would amplify; that amplification is not claimed to be absent.",
    "bounded exhaustive enumeration of timed names x units x dates with algebraic oracles and a differential oracle", "2/C13")

add("C04", "model_checking",
    "Per (population, date) and for EVERY node t of the default-target graph: the target sets {t}, {t} plus its derived-only companions (other "
    "time units, automatic group sums), DEFAULT + {t} are simulated and compared bit for bit (value and dtype) with the run that requests all "
    "nodes; the result must contain exactly the requested columns and one row per input row. Options are enumerated on top: debug on/off, "
    "check_minimal_specification ignore / warn / raise (with exactly the root columns), seven kinds of unused extra columns, all nodes plus "
    "all derived-only names, targets as string / duplicated / reversed.",
    "'All subsets S, S'' is covered through the listed families of target sets (each compared with the all-nodes run), not the power set; "
    "populations are two household sets.",
    "exhaustive enumeration of target-set families per node x options with a differential oracle", "2/C04")

add("C05", "model_checking",
    "Per (population, date) and for EVERY node n of the default-target graph: a second simulation supplies column n with exactly the values the "
    "system computed, requests all other nodes, and replaces rule n by a tripwire function that raises if it is evaluated. All other nodes must be "
    "bit-identical (value and dtype), the tripwire must never fire (the supplied column is used in place of the computation), and the "
    "FunctionsAndColumnsOverlapWarning must name n whenever n is a policy rule, a grouping or a specified aggregation.",
    "Populations are two household sets; supplied values are the computed ones (the 'if its values equal' case of the property).",
    "exhaustive enumeration of single-node overrides with a differential oracle and a tripwire observer", "2/C05")

add("C06", "model_checking",
    "Exhaustive over (a) every parameter group x change dates x populations x perturbation operators (all numeric leaves: floats x1.07 and "
    "ints +1; floats only; rounding bases doubled): only rules that take the group's parameters (or are rounded by it) and their descendants "
    "in the dependency graph may change, everything else must be bit-identical, and each group must change something (non-vacuity reported); "
    "(b) every policy rule in the graph replaced by an identical clone (as dict entry and as list element), by a same-signature wrapper and by "
    "a perturbed wrapper (+1000 / logical not): identical replacements change nothing at all, the perturbed one changes the rule's own column and otherwise only descendants of the rule; "
    "(c) a deep copy of the parameter dictionary changes nothing.",
    "Dependency sets come from the DAG built by the implementation's own dags machinery for the same data columns; perturbed runs that raise "
    "are counted, not judged.",
    "exhaustive enumeration of single-group / single-rule reforms with a differential oracle over all nodes", "2/C06")

add("C14", "model_checking",
    "Explicit-state exploration of API-call histories on the live process: an alphabet of ~27 calls (environment set-up in three argument forms, "
    "function loading, simulations over populations x targets x rounding x debug x data forms incl. dicts / frames needing type conversion and "
    "non-default indexes, parameter and function reforms, user aggregation specs, make_vectorizable on single rules and on every rule, "
    "synthetic data, a failing call); every single call, ALL ordered pairs and triples over the state-relevant calls are executed, each "
    "history in a child forked from a pristine parent. After every step the result must equal the result of the same call in a fresh "
    "interpreter (one subprocess per descriptor, run twice for cross-process determinism), the caller-owned data / params / functions / targets "
    "must be unchanged, and a digest of the process-global state (function code and __info__ of every gettsim module, registries, config "
    "globals, numpy error state, warning filters) is recorded per step to de-duplicate states and to direct the search.",
    "Depth 3 over the listed alphabet; results are compared through bit-exact digests; what a call leaves in OS-level state (files, env) is not observed.",
    "explicit-state exploration of bounded call histories with per-step conformance to fresh-process executions", "2/C14")

# Stages added while hardening the checks against seeded changes (DESIGN.md sections 8 and 11); appended to the claims above.
EXTRA = {
    "C01": " Also: the same populations relabelled to dense ids 0..n-1 in all permutations; tables of 1030 / 2060 (thorough 4400) rows made of "
           "relabelled library copies in six global row orders (reversed, youngest / oldest first, half turn, even-then-odd, pointing persons first); derived unit ids (fg_id, bg_id, sn_id, eg_id) supplied as data with survey-style labels in all household-block orders and rotations.",
    "C02": " Also: stacked frames that keep each household's own row labels or are labelled by p_id; A behind 4400 (9000) rows of other households "
           "and first / split across both ends / reversed and spread in tables above 1024 rows; join, sum_by_p_id and grouped_sum on 4095..8193 rows; "
           "up to 300 families with self-sufficient children.",
    "C03": " Also: every hand-written rule of EVERY validity period (back to 1985) at up to five dates of its period on typed argument alphabets "
           "(base tuple, all single and pairwise deviations, boundary ages, integer alphabets by argument name: calendar years, months, days) through the same two-row protocol.",
    "C04": " Also: every name that exists only on demand (other units, automatic group sums, group sums in another unit) requested alone vs next to "
           "its own relatives; unused columns named like a rule's sibling unit / sibling group level / suffix-stripped aggregate; debug x index labels.",
    "C05": " Also: marker values (off every rounding grid) supplied and every direct consumer re-evaluated on them; supplying marker values vs "
           "replacing the rule by a constant function; the substitution through dicts of Series and frames with other row labels; 2 / 21 / 40 / 80 / all rule columns supplied together.",
    "C06": " Also: in-place edits of deep copies, reforms given as list / renamed / wrapped / file-path forms, replaced rules must take effect, and no "
           "mutable object may be shared between parameter groups or between two environments (same date and across 31 dates).",
    "C07": " Also: the date argument in every documented form (date, ISO string, string with time / UTC offset, year), function metadata vs decorator, and environments built after an in-place edit of an earlier environment.",
    "C08": " Also: every rule with real conditions over the valid values of its integer table arguments (birth year x month, months, years of "
           "contributions, household size x rent level) singly and in pairs: no KeyError / IndexError on any table; integer literal subscripts are judged in path mode like string keys.",
    "C09": " The grammar now has 283 057 programs on 512 inputs and includes membership and identity tests, chained comparisons, and / or on numbers "
           "used as values, arithmetic on Booleans, conversions, four-way elif chains and nested min / max.",
    "C10": " Also: all rounded rules of a date wrapped in ONE call (sorted and reversed order), scalar and integer outputs, the day before and the "
           "1 January after every spec change; NaN / inf rows next to the probe values.",
    "C11": " Also: arrays of 6..4097 elements with NaN / inf / -0.0 / groups of more than 255 Booleans; pointer look-ups and sums on tables of 1023..12500 "
           "(thorough 20011) rows x eight pointer layouts x three id labellings x three dtypes; user specs at every grouping level; group ids around and above 2**24.",
    "C12": " Also: 155 / 1331 small structures side by side in ONE table (more than 99 units and 422 self-sufficient children) in four row orders x three "
           "household-id schemes, units must be the disjoint union of the blocks' units.",
    "C13": " Also: every DERIVED node (group / person-pointer aggregates, conversions) supplied with marker values in each other unit must behave exactly "
           "as when supplied in its native unit (a hand-written rule of the same base name keeps precedence by design and is out of this stage). The ratio stage is repeated with loss-making "
           "capital / self-employment / rental income and with all timed amounts scaled; every hand-written one-argument converter rule of every date class "
           "is evaluated on a signed value alphabet against the exact factor.",
    "C14": " The alphabet now has ~45 calls (same-month dates, wrapped-function / in-place-then-discard / file-path reforms); fresh-interpreter references "
           "are repeated under several PYTHONHASHSEED values.",
    "C15": " Also: two / three households in ONE table with rows round-robin across households, adults first and reversed (groups not adjacent, "
           "derived ids sparse). Also: every hand-written group-level rule of EVERY period evaluated directly on typed argument alphabets: changing an individual-level "
           "argument while the group-level arguments stay fixed must not change its value.",
    "C16": " Also: a 5 EUR (thorough 1 EUR) wage lattice with every contribution boundary x 0/1/2/3/5 children x region x age 22 / 40 through all nodes; "
           "the exact Elterngeld cap incl. sibling and multiple-birth bonuses.",
    "C17": " Twelve scenarios now, incl. two adult-led needs units and pensioners living with dependent children (alone, retired partner, working partner).",
    "C18": " Also: the same critical points with scaled rates (ten multipliers incl. every spelling of zero) against exact accumulation.",
    "C19": " Profiles now: 0/1/2/5 children under 25, age 35 and childless 21, with and without a pension (900 / 2500) on top of the wage.",
    "C20": " Also: every way of pointing at nobody other than -1 (next / previous id, 0, -2, -3, -9999, -2**31) in every pointer column and row. "
           "Also: tiny fractions and fractions on large values; faults and lossless variants in columns that OVERRIDE a rule (typed by its return "
           "annotation, incl. the datetime rule).",
}
NOTE_FIX = {
    "C03": "Argument tuples outside the harvested universe and the typed alphabets are not covered (pairs are exhaustive up to the stated cap per rule).",
    "C19": "Monotonicity between lattice points is not proved, only checked at the stated step and at all boundaries; employees with statutory "
           "insurance only (not self-employed / retired).",
}
for _pid, _txt in EXTRA.items():
    CHECKS[_pid]["text"] += _txt
for _pid, _txt in NOTE_FIX.items():
    CHECKS[_pid]["note"] = _txt

NOT_APPLICABLE = []


def main():
    checks = []
    for pid in sorted(CHECKS):
        c = CHECKS[pid]
        checks.append({
            "property_id": pid,
            "quick_cmd": f"/venv/bin/python -m mc {pid} --tier quick",
            "thorough_cmd": f"/venv/bin/python -m mc {pid} --tier thorough",
            "evidence_file": f"/verif/evidence/{pid}.json",
            "replay_cmd_template": "/venv/bin/python -m mc replay {path}",
            "engine": "mc",
            "level_claimed": {"category": c["category"], "text": c["text"], "design_ref": f"DESIGN.md section {c['design_ref']}"},
            "level_note": c["note"],
            "technique": c["technique"],
        })
    all_ids = [f"C{i:02d}" for i in range(1, 21)]
    na = [x for x in NOT_APPLICABLE]
    claimed = set(CHECKS) | {x["property_id"] for x in na}
    for pid in all_ids:
        if pid not in claimed:
            na.append({"property_id": pid, "reason": "check not built yet in this round (planned, see DESIGN.md section 2); not claimed until its command exists"})
    m = {
        "version": 1,
        "setup_cmd": "/venv/bin/python -c \"import sys; sys.path.insert(0, '/verif'); import mc.harness, mc.popgen, mc.sim; print('mc ok')\"",
        "hooks": {
            "guard": "GETTSIM_VERIF",
            "enable": "no source hooks: every seam (YAML loader, warnings, module globals) is reached by monkeypatching from /verif/mc/harness.py",
            "baseline_off_cmd": "cd /repo && /venv/bin/python -m pytest -ra -q -p no:cacheprovider --timeout=900 --continue-on-collection-errors",
            "source_commits": [],
            "add_only": True,
        },
        "engines": [{
            "name": "mc", "path": "/verif/mc",
            "serves_properties": sorted(CHECKS),
            "kind_free_text": "hand-written explicit-state / bounded-exhaustive explorer in Python driving the real gettsim code in-process "
                              "(16 forked workers); reference models under mc/ref",
        }],
        "checks": checks,
        "not_applicable": na,
        "notes": "All checks run against /repo's working tree (import path /repo/src via the venv's .pth; VERIF_REPO overrides for scratch worktrees). "
                 "known_findings.json lists genuine defects that are recorded rather than repaired, and the fix: commits.",
    }
    json.dump(m, open("/verif/MANIFEST.json", "w"), indent=1, ensure_ascii=False)
    import jsonschema  # noqa
    jsonschema.validate(m, json.load(open("/root/.vp/MANIFEST.schema.json")))
    print("MANIFEST ok:", len(checks), "checks;", len(na), "not claimed")


if __name__ == "__main__":
    main()
