"""Reference model of the rule registry: AST scan of @policy_info decorators."""
from __future__ import annotations

import ast
import datetime
import functools

from mc import harness  # noqa: F401
from _gettsim.config import PATHS_TO_INTERNAL_FUNCTIONS, RESOURCE_DIR

MIN = datetime.date(1, 1, 1)
MAX = datetime.date(9999, 12, 31)


def _module_files():
    files = []
    for p in PATHS_TO_INTERNAL_FUNCTIONS:
        if p.is_dir():
            files += sorted(p.rglob("*.py"))
        else:
            files.append(p)
    return files


def _const(node):
    return node.value if isinstance(node, ast.Constant) else None


@functools.lru_cache(maxsize=1)
def scan():
    """List of dicts: module, func, dag_name, start, end, rounding_key, decorated, skip_vectorization."""
    out = []
    for f in _module_files():
        mod = ".".join(f.relative_to(RESOURCE_DIR.parent).with_suffix("").parts)
        tree = ast.parse(f.read_text(encoding="utf-8"))
        per_name = {}
        for node in tree.body:
            if not isinstance(node, ast.FunctionDef):
                continue
            rec = dict(module=mod, func=node.name, dag_name=node.name, start=MIN, end=MAX, rounding_key=None, decorated=False,
                       skip_vectorization=False, lineno=node.lineno)
            for dec in node.decorator_list:
                if isinstance(dec, ast.Call) and getattr(dec.func, "id", getattr(dec.func, "attr", None)) == "policy_info":
                    rec["decorated"] = True
                    for kw in dec.keywords:
                        v = _const(kw.value)
                        if kw.arg == "start_date":
                            rec["start"] = datetime.date.fromisoformat(v)
                        elif kw.arg == "end_date":
                            rec["end"] = datetime.date.fromisoformat(v)
                        elif kw.arg == "name_in_dag" and v:
                            rec["dag_name"] = v
                        elif kw.arg == "params_key_for_rounding":
                            rec["rounding_key"] = v
                        elif kw.arg == "skip_vectorization":
                            rec["skip_vectorization"] = bool(v)
            per_name[node.name] = rec  # a later def of the same name replaces the earlier one
        out += list(per_name.values())
    return out


def active(d):
    """dag name -> list of records active at date d."""
    res = {}
    for r in scan():
        if r["start"] <= d <= r["end"]:
            res.setdefault(r["dag_name"], []).append(r)
    return res


def bounds():
    s = set()
    for r in scan():
        if r["start"] != MIN:
            s.add(r["start"])
        if r["end"] != MAX:
            s.add(r["end"])
            s.add(r["end"] + datetime.timedelta(days=1))
    return sorted(s)
