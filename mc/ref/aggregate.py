"""Reference model of group and person-pointer aggregation: dicts of member lists."""
from __future__ import annotations

import math


def members(group_id):
    d = {}
    for i, g in enumerate(group_id):
        d.setdefault(g, []).append(i)
    return d


def grouped(kind, column, group_id):
    """Per-row value of the aggregate of `column` over the row's group (python scalars)."""
    mem = members(group_id)
    per_group = {}
    for g, idx in mem.items():
        vals = [column[i] for i in idx] if column is not None else None
        if kind == "count":
            v = len(idx)
        elif kind == "sum":
            v = math.fsum(float(x) for x in vals) if any(isinstance(x, float) for x in vals) else sum(int(x) for x in vals)
        elif kind == "mean":
            v = math.fsum(float(x) for x in vals) / len(vals)
        elif kind == "max":
            v = max(vals)
        elif kind == "min":
            v = min(vals)
        elif kind == "any":
            v = any(bool(x) for x in vals)
        elif kind == "all":
            v = all(bool(x) for x in vals)
        else:
            raise ValueError(kind)
        per_group[g] = v
    return [per_group[g] for g in group_id]


def sum_by_pointer(column, pointer, p_id):
    """Each source row is credited to exactly the person it points to; negative pointers are ignored."""
    pos = {p: i for i, p in enumerate(p_id)}
    isf = any(isinstance(x, float) for x in column)
    buckets = [[] for _ in p_id]
    for i, tgt in enumerate(pointer):
        if tgt >= 0:
            buckets[pos[tgt]].append(column[i])
    return [(math.fsum(float(x) for x in b) if isf else sum(int(x) for x in b)) for b in buckets]


def join(foreign_key, primary_key, target, missing):
    pos = {p: i for i, p in enumerate(primary_key)}
    return [missing if fk < 0 else target[pos[fk]] for fk in foreign_key]


def expected_kind(kind, src_kind):
    """numpy dtype kind of the result (GEP 4): sum of bool -> int; any/all -> bool; else as source."""
    if kind == "count":
        return None  # not constrained here
    if kind in ("any", "all"):
        return "b"
    if kind == "sum" and src_kind == "b":
        return "iu"
    if kind == "mean":
        return "f"
    return {"f": "f", "i": "iu", "u": "iu", "b": "b", "M": "M"}[src_kind]
