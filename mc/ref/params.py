"""Reference model of the policy environment's parameters for a date.

Written from the statement of C07 and the parameter-file documentation; shares no code
with _gettsim.policy_environment.  Numbers of piecewise schedules are derived with
exact Fractions from the decimal text in the YAML files.
"""
from __future__ import annotations

import copy
import datetime
import functools
from fractions import Fraction

import numpy as np
import yaml

from mc import harness  # noqa: F401
from _gettsim.config import INTERNAL_PARAMS_GROUPS, RESOURCE_DIR

META = ("note", "reference", "deviation_from", "access_different_date")
INF = float("inf")


@functools.lru_cache(maxsize=None)
def raw_group(g):
    return yaml.load((RESOURCE_DIR / "parameters" / f"{g}.yaml").read_text(encoding="utf-8"), Loader=yaml.CSafeLoader)


def groups():
    return list(INTERNAL_PARAMS_GROUPS)


@functools.lru_cache(maxsize=None)
def _keys(g, p):
    return tuple(sorted(k for k in raw_group(g)[p] if isinstance(k, datetime.date)))


def _in_force(g, p, d):
    ks = _keys(g, p)
    past = [k for k in ks if k <= d]
    return past[-1] if past else None


def _overlay(base, upd):
    """Entries of `upd` replace the leaves of `base` they name; everything else is kept."""
    if isinstance(upd, dict):
        out = copy.deepcopy(base) if isinstance(base, dict) else {}
        for k, v in upd.items():
            out[k] = _overlay(out.get(k), v) if isinstance(v, dict) else v
        return out
    return upd


class Absent(Exception):
    pass


_cache: dict = {}


def _sig(g, p, d):
    k = _in_force(g, p, d)
    spec = raw_group(g)[p]
    if k is None:
        first = spec[_keys(g, p)[0]]
        dev = first.get("deviation_from") if isinstance(first, dict) else None
        if dev and "." in dev:
            g2, p2 = dev.split(".")
            return (g, p, None, _sig(g2, p2, d))
        return (g, p, None)
    e = spec[k]
    dev = e.get("deviation_from") if isinstance(e, dict) else None
    if dev and dev != "previous" and "." in dev:
        g2, p2 = dev.split(".")
        return (g, p, k, _sig(g2, p2, d))
    return (g, p, k)


def resolve(g, p, d):
    """Raw (unparsed) value of parameter p of group g in force at d; raises Absent."""
    s = _sig(g, p, d)
    if s in _cache:
        v = _cache[s]
        if isinstance(v, Absent):
            raise v
        return copy.deepcopy(v)
    try:
        v = _resolve(g, p, d)
    except Absent as a:
        _cache[s] = a
        raise
    _cache[s] = v
    return copy.deepcopy(v)


def _resolve(g, p, d):
    spec = raw_group(g)[p]
    k = _in_force(g, p, d)
    if k is None:
        first = spec[_keys(g, p)[0]]
        dev = first.get("deviation_from") if isinstance(first, dict) else None
        if dev and "." in dev:
            g2, p2 = dev.split(".")
            return resolve(g2, p2, d)
        raise Absent(f"{g}.{p} has no entry on or before {d}")
    e = spec[k]
    if "scalar" in e:
        return INF if e["scalar"] == "inf" else e["scalar"]
    dev = e.get("deviation_from")
    out = {}
    if dev == "previous":
        out = resolve(g, p, k - datetime.timedelta(days=1))
    elif dev and "." in dev:
        g2, p2 = dev.split(".")
        out = resolve(g2, p2, d)
    if not isinstance(out, dict):
        out = {}
    for meta in ("type", "progressionsfaktor"):
        if meta in spec:
            out[meta] = spec[meta]
    for key, v in e.items():
        if key in META:
            continue
        out[key] = _overlay(out.get(key), v) if dev else v
    return out


def _one_year_earlier(d):
    try:
        return d.replace(year=d.year - 1)
    except ValueError:  # 29 Feb
        return d.replace(year=d.year - 1, day=28)


def raw_params(g, d):
    out = {}
    rg = raw_group(g)
    for p in rg:
        if p == "rounding":
            continue
        try:
            out[p] = resolve(g, p, d)
        except Absent:
            continue
        add = rg[p].get("access_different_date")
        if add == "vorjahr":
            try:
                out[p + "_vorjahr"] = resolve(g, p, _one_year_earlier(d))
            except Absent:
                pass
        elif add == "jahresanfang":
            try:
                out[p + "_jahresanfang"] = resolve(g, p, d.replace(month=1, day=1))
            except Absent:
                pass
    out["datum"] = np.datetime64(d)
    if "rounding" in rg:
        out["rounding"] = {}
        for fn, spec in rg["rounding"].items():
            past = sorted(k for k in spec if isinstance(k, datetime.date) and k <= d)
            if past:
                out["rounding"][fn] = {k: v for k, v in spec[past[-1]].items() if k in ("base", "direction", "to_add_after_rounding")}
    return out


# ------------------------------------------------------------------ piecewise schedules
def frac(x):
    if isinstance(x, str):
        x = x.strip()
        if x in ("inf", "+inf", ".inf"):
            return INF
        if x in ("-inf", "-.inf"):
            return -INF
    if isinstance(x, float):
        if x in (INF, -INF):
            return x
        return Fraction(repr(x))  # the decimal the YAML author wrote
    if isinstance(x, int):
        return Fraction(x)
    return Fraction(str(x))


class Schedule:
    """Exact piecewise polynomial: thresholds t[0..m], rates[k][i], intercepts[i]."""

    def __init__(self, spec, name="?"):
        typ = spec["type"]
        self.degree = {"piecewise_linear": 1, "piecewise_quadratic": 2, "piecewise_cubic": 3}[typ]
        keys = sorted(k for k in spec if isinstance(k, int))
        if keys != list(range(len(keys))):
            raise ValueError(f"{name}: pieces not numbered 0..n-1")
        m = len(keys)
        lower = [None] * m
        upper = [None] * m
        for i in keys:
            pc = spec[i]
            if "lower_threshold" in pc:
                lower[i] = frac(pc["lower_threshold"])
            elif i > 0 and "upper_threshold" in spec[i - 1]:
                lower[i] = frac(spec[i - 1]["upper_threshold"])
            if "upper_threshold" in pc:
                upper[i] = frac(pc["upper_threshold"])
            elif i + 1 < m and "lower_threshold" in spec[i + 1]:
                upper[i] = frac(spec[i + 1]["lower_threshold"])
        if None in lower or None in upper:
            raise ValueError(f"{name}: thresholds incomplete")
        self.lower, self.upper = lower, upper
        self.thresholds = [lower[0], *upper]
        names = ["rate_linear", "rate_quadratic", "rate_cubic"][: self.degree]
        rates = [[None] * m for _ in range(self.degree)]
        for i in keys:
            pc = spec[i]
            for k, nm in enumerate(names):
                if nm in pc:
                    rates[k][i] = frac(pc[nm])
                elif k == 0 and self.degree == 1 and "rate" in pc:
                    rates[k][i] = frac(pc["rate"])
        if spec.get("progressionsfaktor"):
            for i in keys:
                if rates[1][i] is None:
                    rates[1][i] = (rates[0][i + 1] - rates[0][i]) / (2 * (upper[i] - lower[i]))
        for k in range(self.degree):
            if None in rates[k]:
                raise ValueError(f"{name}: rate missing")
        self.rates = rates
        given = [i for i in keys if "intercept_at_lower_threshold" in spec[i]]
        icpt = [None] * m
        icpt[0] = frac(spec[0]["intercept_at_lower_threshold"])
        if len(given) == m:
            for i in keys:
                icpt[i] = frac(spec[i]["intercept_at_lower_threshold"])
        else:
            for i in range(1, m):
                icpt[i] = self.piece_value(i - 1, upper[i - 1], icpt)
        self.intercepts = icpt
        self.m = m

    def piece_value(self, i, x, icpt=None):
        icpt = self.intercepts if icpt is None else icpt
        if self.lower[i] == -INF:
            return icpt[i]
        inc = x - self.lower[i]
        return icpt[i] + sum(self.rates[k][i] * inc ** (k + 1) for k in range(self.degree))

    def piece_of(self, x):
        """A threshold belongs to the piece above it."""
        for i in range(self.m):
            if x < self.upper[i]:
                return i
        return self.m - 1

    def __call__(self, x):
        x = Fraction(x) if not isinstance(x, Fraction) else x
        return self.piece_value(self.piece_of(x), x)

    def as_arrays(self):
        f = lambda v: float(v)  # noqa: E731
        return {
            "thresholds": np.array([f(t) for t in self.thresholds]),
            "rates": np.array([[f(r) for r in row] for row in self.rates]),
            "intercepts_at_lower_thresholds": np.array([f(c) for c in self.intercepts]),
        }


def is_schedule(v):
    return isinstance(v, dict) and isinstance(v.get("type"), str) and v["type"].startswith("piecewise")


def parse_group(raw):
    out = {}
    for p, v in raw.items():
        if is_schedule(v):
            out[p] = Schedule(v, p).as_arrays()
        elif isinstance(v, dict) and p != "rounding":
            out[p] = {k: x for k, x in v.items() if k not in ("type", "progressionsfaktor")}
        else:
            out[p] = v
    return out


def reference_params(d):
    """The complete expected `params` dictionary for date d."""
    raws = {g: raw_params(g, d) for g in INTERNAL_PARAMS_GROUPS}
    params = {g: parse_group(raws[g]) for g in INTERNAL_PARAMS_GROUPS}
    if 2021 <= d.year < 2023:
        ex = params["kinderzuschl"]["existenzminimum"]
        params["kinderzuschl"]["maximum"] = float(
            (frac(ex["regelsatz"]["kinder"]) + frac(ex["kosten_der_unterkunft"]["kinder"]) + frac(ex["heizkosten"]["kinder"])) / 12
            - frac(params["kindergeld"]["kindergeld"][1])
        )
    if d.year >= 2005:
        s1 = Schedule(raws["eink_st_abzuege"]["einführungsfaktor"], "einführungsfaktor")
        params["eink_st_abzuege"]["einführungsfaktor_vorsorgeaufw_alter_ab_2005"] = float(s1(Fraction(d.year)))
        s2 = Schedule(raws["eink_st_abzuege"]["vorsorgepauschale_rentenv_anteil"], "vorsorgepauschale_rentenv_anteil")
        params["eink_st_abzuege"]["vorsorgepauschale_rentenv_anteil"] = float(s2(Fraction(d.year)))
    return params


# ------------------------------------------------------------------ deep comparison
def deep_diff(impl, ref, path="", rtol=1e-12):
    """List of human-readable differences between two parameter trees."""
    if isinstance(impl, dict) and isinstance(ref, dict):
        out = []
        for k in sorted(set(impl) | set(ref), key=str):
            if k not in impl:
                out.append(f"{path}/{k}: missing in environment (reference has {str(ref[k])[:60]})")
            elif k not in ref:
                out.append(f"{path}/{k}: unexpected in environment ({str(impl[k])[:60]})")
            else:
                out += deep_diff(impl[k], ref[k], f"{path}/{k}", rtol)
        return out
    if isinstance(impl, dict) != isinstance(ref, dict):
        return [f"{path}: environment {str(impl)[:80]} reference {str(ref)[:80]}"]
    try:
        a = np.asarray(impl)
        b = np.asarray(ref)
        if a.ndim == 0 and b.ndim == 0 and a.dtype.kind in "fiub" and b.dtype.kind in "fiub":
            # scalar leaves come straight from the YAML text: a boolean must stay a boolean, an integer an integer
            cls = lambda k: "b" if k == "b" else ("i" if k in "iu" else "f")  # noqa: E731
            if cls(a.dtype.kind) != cls(b.dtype.kind) and not (cls(a.dtype.kind) in "if" and cls(b.dtype.kind) in "if" and float(a) == float(b) and path.endswith(("maximum", "anteil", "2005"))):
                return [f"{path}: environment {impl!r} ({type(impl).__name__}) reference {ref!r} ({type(ref).__name__}): type differs"]
        if a.dtype.kind in "fiub" and b.dtype.kind in "fiub":
            if a.shape != b.shape:
                ok = False
            else:
                af, bf = a.astype(float), b.astype(float)
                ok = bool(np.all((af == bf) | (np.abs(af - bf) <= rtol * np.maximum(np.abs(af), np.abs(bf)))))
        elif a.dtype.kind == "M" or b.dtype.kind == "M":
            ok = bool(np.all(a.astype("datetime64[D]") == b.astype("datetime64[D]")))
        else:
            ok = bool(np.all(a == b)) and a.shape == b.shape
    except Exception:  # noqa: BLE001
        ok = impl == ref
    return [] if ok else [f"{path}: environment {str(impl)[:100]!s} reference {str(ref)[:100]!s}"]


def digest(params, skip_datum=True):
    """Canonical text of a params tree (for the stutter invariant)."""
    def canon(x):
        if isinstance(x, dict):
            return "{" + ",".join(f"{k!r}:{canon(v)}" for k, v in sorted(x.items(), key=lambda kv: str(kv[0])) if not (skip_datum and k == "datum")) + "}"
        if isinstance(x, np.ndarray):
            return "A" + repr(x.tolist())
        if isinstance(x, (list, tuple)):
            return "[" + ",".join(canon(v) for v in x) + "]"
        if isinstance(x, (np.floating, float)):
            return repr(float(x))
        if isinstance(x, (np.integer,)):
            return repr(int(x))
        return repr(x)
    import hashlib
    return hashlib.sha1(canon(params).encode("utf-8")).hexdigest()
