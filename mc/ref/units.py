"""Reference model of the derived units, written from the textual definitions.

Persons are positions 0..n-1.  Inputs are plain lists; pointers are positions or -1.
Every function returns a partition (frozenset of frozensets of positions).
"""
from __future__ import annotations


class _UF:
    def __init__(self, n):
        self.p = list(range(n))

    def find(self, x):
        while self.p[x] != x:
            self.p[x] = self.p[self.p[x]]
            x = self.p[x]
        return x

    def union(self, a, b):
        self.p[self.find(a)] = self.find(b)

    def partition(self):
        d = {}
        for i in range(len(self.p)):
            d.setdefault(self.find(i), set()).add(i)
        return frozenset(frozenset(v) for v in d.values())


def couples(pointer):
    """Persons joined with the person they point to (marriage / Einstandsgemeinschaft)."""
    uf = _UF(len(pointer))
    for i, j in enumerate(pointer):
        if j >= 0:
            uf.union(i, j)
    return uf.partition()


def tax_units(ehepartner, gemeinsam):
    uf = _UF(len(ehepartner))
    for i, j in enumerate(ehepartner):
        if j >= 0 and gemeinsam[i] and gemeinsam[j]:
            uf.union(i, j)
    return uf.partition()


def has_children(par):
    n = len(par)
    out = [False] * n
    for a, b in par:
        if a >= 0:
            out[a] = True
        if b >= 0:
            out[b] = True
    return out


def fg_children(ages, hh, par):
    """(child, parent) edges that pull a child into the parent's Familiengemeinschaft."""
    hc = has_children(par)
    edges = []
    for c, ps in enumerate(par):
        for p in ps:
            if p >= 0 and hh[p] == hh[c] and ages[c] < 25 and not hc[c]:
                edges.append((c, p))
    return edges


def family_units(ages, hh, partner, par):
    uf = _UF(len(ages))
    for i, j in enumerate(partner):
        if j >= 0:
            uf.union(i, j)
    for c, p in fg_children(ages, hh, par):
        uf.union(c, p)
    return uf.partition()


def needs_units(ages, hh, partner, par, eigenbedarf):
    fg = family_units(ages, hh, partner, par)
    out = set()
    for grp in fg:
        own = {i for i in grp if eigenbedarf[i]}
        rest = grp - own
        if rest:
            out.add(frozenset(rest))
        for i in own:
            out.add(frozenset({i}))
    return frozenset(out)


def housing_units(hh, priority_flag):
    d = {}
    for i, (h, f) in enumerate(zip(hh, priority_flag)):
        d.setdefault((h, bool(f)), set()).add(i)
    return frozenset(frozenset(v) for v in d.values())


def refines(fine, coarse):
    """Every block of `fine` lies inside one block of `coarse`."""
    where = {}
    for k, blk in enumerate(coarse):
        for i in blk:
            where[i] = k
    return all(len({where[i] for i in blk}) == 1 for blk in fine)


def by_key(values):
    d = {}
    for i, v in enumerate(values):
        d.setdefault(v, set()).add(i)
    return frozenset(frozenset(v) for v in d.values())
