"""Shared harness: import gettsim from /repo's working tree, YAML seam, worker pool.

Everything that runs the implementation goes through this module so that

* the code under test is the *current working tree* of /repo (or of $VERIF_REPO, used
  to point the checks at a scratch worktree carrying a seeded change),
* YAML parsing (the dominating cost of ``set_up_policy_environment``) is done once per
  file text and process; each call gets a fresh un-pickled copy, so the implementation
  cannot alias state through the cache,
* exploration work is spread over a fork()ed pool of workers.
"""
from __future__ import annotations

import datetime
import functools
import hashlib
import multiprocessing
import os
import pickle
import sys
import warnings

REPO = os.environ.get("VERIF_REPO", "/repo")
_SRC = os.path.join(REPO, "src")
if _SRC not in sys.path:
    sys.path.insert(0, _SRC)
os.environ.setdefault("PYTHONHASHSEED", "0")

import numpy  # noqa: E402
import yaml  # noqa: E402

import _gettsim  # noqa: E402

if not os.path.realpath(_gettsim.__file__).startswith(os.path.realpath(_SRC)):
    raise SystemExit(
        f"harness error: _gettsim imported from {_gettsim.__file__}, expected {_SRC}"
    )

import _gettsim.policy_environment as _pe  # noqa: E402

SEED = int(os.environ.get("VERIF_SEED", "0") or 0)
NPROC = int(os.environ.get("VERIF_NPROC", "0") or 0) or min(16, os.cpu_count() or 1)

# --------------------------------------------------------------------------- yaml seam
_yaml_orig_load = yaml.load
_yaml_cache: dict = {}


def _cached_yaml_load(text, Loader=None, **kw):  # noqa: N803
    if not isinstance(text, str):
        return _yaml_orig_load(text, Loader=Loader, **kw)
    key = hashlib.sha1(text.encode("utf-8")).digest()
    blob = _yaml_cache.get(key)
    if blob is None:
        blob = pickle.dumps(_yaml_orig_load(text, Loader=Loader, **kw), protocol=4)
        _yaml_cache[key] = blob
    return pickle.loads(blob)


class _YamlProxy:
    """Stands in for the ``yaml`` module inside policy_environment only."""

    def __getattr__(self, name):
        return getattr(yaml, name)

    load = staticmethod(_cached_yaml_load)


def install_yaml_seam():
    _pe.yaml = _YamlProxy()


def remove_yaml_seam():
    _pe.yaml = yaml


install_yaml_seam()
warnings.filterwarnings("ignore")


def parse_date(d) -> datetime.date:
    if isinstance(d, datetime.date):
        return d
    return datetime.date.fromisoformat(str(d))


@functools.lru_cache(maxsize=64)
def env(date_iso: str):
    """(params, functions) of the real implementation for a date (cached per process)."""
    from gettsim import set_up_policy_environment

    return set_up_policy_environment(date_iso)


def fresh_env(date_iso: str):
    from gettsim import set_up_policy_environment

    return set_up_policy_environment(date_iso)


# --------------------------------------------------------------------------- pool
_POOL = None


def pool():
    global _POOL  # noqa: PLW0603
    if _POOL is None:
        ctx = multiprocessing.get_context("fork")
        _POOL = ctx.Pool(NPROC)
    return _POOL


def pmap(func, tasks, chunksize=1, ordered=False):
    """Run func over tasks in the worker pool; yields results."""
    tasks = list(tasks)
    if NPROC <= 1 or len(tasks) <= 1:
        for t in tasks:
            yield func(t)
        return
    p = pool()
    it = p.imap(func, tasks, chunksize) if ordered else p.imap_unordered(func, tasks, chunksize)
    yield from it


def close_pool():
    global _POOL  # noqa: PLW0603
    if _POOL is not None:
        _POOL.close()
        _POOL.join()
        _POOL = None


def rotate(seq, seed=None):
    """Rotate an enumeration by the seed: same set, different order."""
    seq = list(seq)
    if not seq:
        return seq
    k = (SEED if seed is None else seed) % len(seq)
    return seq[k:] + seq[:k]


def to_jsonable(x):
    import pandas as pd

    if isinstance(x, dict):
        return {str(k): to_jsonable(v) for k, v in x.items()}
    if isinstance(x, (list, tuple, set, frozenset)):
        return [to_jsonable(v) for v in x]
    if isinstance(x, numpy.ndarray):
        return [to_jsonable(v) for v in x.tolist()]
    if isinstance(x, (numpy.bool_,)):
        return bool(x)
    if isinstance(x, numpy.integer):
        return int(x)
    if isinstance(x, numpy.floating):
        x = float(x)
    if isinstance(x, float):
        if x != x or x in (float("inf"), float("-inf")):
            return repr(x)
        return x
    if isinstance(x, (numpy.datetime64, datetime.date, pd.Timestamp)):
        return str(x)
    if isinstance(x, (str, int, bool)) or x is None:
        return x
    return repr(x)
