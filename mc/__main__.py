"""Entry point: python -m mc <ID> [--tier quick|thorough]   |   python -m mc replay <file>"""
from __future__ import annotations

import argparse
import importlib
import json
import os
import sys
import traceback


def main(argv=None):
    ap = argparse.ArgumentParser(prog="mc")
    ap.add_argument("what", help="property id (C01..C20) or 'replay'")
    ap.add_argument("path", nargs="?", help="replay file (for 'replay')")
    ap.add_argument("--tier", default=os.environ.get("VERIF_TIER") or "quick", choices=["quick", "thorough"])
    args = ap.parse_args(argv)

    if args.what == "replay":
        with open(args.path, encoding="utf-8") as fh:
            rec = json.load(fh)
        mod = importlib.import_module(f"mc.checks.{rec['property'].lower()}")
        ok, msg = mod.replay(rec["case"])
        print(("REPRODUCED " if not ok else "NOT-REPRODUCED ") + rec["signature"])
        print(msg)
        return 1 if not ok else 0

    prop = args.what.upper()
    mod = importlib.import_module(f"mc.checks.{prop.lower()}")
    try:
        rc = mod.run(args.tier)
    except SystemExit:
        raise
    except BaseException:  # noqa: BLE001
        traceback.print_exc()
        print(f"harness error in {prop} (not a verdict)")
        rc = 2
    finally:
        from mc import harness

        harness.close_pool()
    return rc


if __name__ == "__main__":
    sys.exit(main())
