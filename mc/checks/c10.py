"""C10 - statutory rounding is applied exactly once, on the right grid."""
from __future__ import annotations

import datetime
import inspect
import math
import re
from fractions import Fraction

import numpy as np

from mc import harness, popgen, sim
from mc.evidence import Partial, Reporter
from mc.ref import params as RP
from mc.ref import registry as RR
from _gettsim import interface as IF
from _gettsim import time_conversion as TC
from _gettsim.config import SUPPORTED_GROUPINGS


def frac_base(b):
    return Fraction(repr(b)) if isinstance(b, float) else Fraction(b)


def judge(U: Fraction, r: float, base, direction, offset):  # noqa: N803
    """None if r is an acceptable statutory rounding of U, else a reason."""
    B = frac_base(base)  # noqa: N806
    a = frac_base(offset or 0)
    if not math.isfinite(r):
        return f"non-finite result {r}"
    R = Fraction(r) - a  # noqa: N806
    k = R / B
    kk = round(k)
    tol = Fraction(1, 10**9) * max(1, abs(U), abs(R))
    if abs(R - kk * B) > tol:
        return f"result {r} is not on the grid {base}*k+{offset or 0}"
    q = U / B
    near = round(q)
    if q == near:  # exactly on the grid: fixed point
        if abs(R - U) > tol:
            return f"value {float(U)} is on the grid but was moved to {r}"
        return None
    if abs(U - near * B) <= Fraction(1, 10**9) * max(1, abs(U)):
        # within float noise of a grid point that is not representable: accept the exact answer and the decimal-intent answer
        ok = {near * B}
        if direction == "up":
            ok.add(math.ceil(q) * B)
        elif direction == "down":
            ok.add(math.floor(q) * B)
        if any(abs(R - x) <= tol for x in ok):
            return None
        return f"value {float(U)} (next to grid point {float(near * B)}) rounded {direction} to {r}"
    if abs(R - U) >= B + tol:
        return f"error {float(abs(R - U))} not below one grid step {base}"
    if direction == "up" and R < U - tol:
        return f"rounded up but {r} - offset < {float(U)}"
    if direction == "down" and R > U + tol:
        return f"rounded down but {r} - offset > {float(U)}"
    if direction == "nearest" and abs(R - U) > B / 2 + tol:
        return f"nearest: |{r} - offset - {float(U)}| > base/2"
    return None


def value_alphabet(base):
    b = float(base)
    vals = set()
    for k in (0, 1, 2, 3, 7, 10, 100, 12345, 1000000, -1, -3, -100):
        g = k * b
        for delta in (0.0, b / 2, -b / 2, b / 2 + 1e-7 * b, b / 2 - 1e-7 * b, -b / 2 + 1e-7 * b, -b / 2 - 1e-7 * b, 1e-7 * b, -1e-7 * b, b / 3, -b / 3,
                      0.999 * b, -0.999 * b):
            vals.add(g + delta)
        vals.add(float(np.nextafter(g, np.inf)))
        vals.add(float(np.nextafter(g, -np.inf)))
    for v in (300.02, 1234.565, 1e6 + 0.005, 0.1 + 0.2, 2.675, 1.005, 719.99, 17.5, 18.5):
        vals.add(v)
    return sorted(vals)


def spec_versions():
    """(group, dag name, key date iso, spec) for every rounding spec entry in the YAML files."""
    out = []
    for g in RP.groups():
        for fn, spec in RP.raw_group(g).get("rounding", {}).items():
            for k in sorted(x for x in spec if isinstance(x, datetime.date)):
                out.append((g, fn, k.isoformat()))
    return out


def task_wrapper(arg):
    """The real rounding wrapper around an identity stub carrying the rule's name, environment of the date."""
    g, name, ds = arg
    out = Partial()
    d = datetime.date.fromisoformat(ds)
    p, _ = harness.env(ds)
    want = RP.raw_params(g, d)["rounding"].get(name)
    got_spec = p.get(g, {}).get("rounding", {}).get(name)
    case = {"group": g, "rule": name, "date": ds, "spec": want}
    out.state((g, name, ds))
    if got_spec is None or any(got_spec.get(k) != want.get(k) for k in ("base", "direction", "to_add_after_rounding")):
        if want.get("to_add_after_rounding") is not None and (got_spec or {}).get("to_add_after_rounding") is None:
            out.violation(f"offset-not-applied:{name}", case, f"environment spec {got_spec}, law {want}")
        else:
            out.violation(f"spec-differs:{name}", case, f"environment spec {got_spec}, law {want}")

    def stub(x):
        return x

    stub.__name__ = name
    stub.__info__ = {"params_key_for_rounding": g, "name_in_dag": name}
    try:
        wrapped = IF._add_rounding_to_functions({name: stub}, p)[name]
    except Exception as e:  # noqa: BLE001
        out.violation(f"wrapper-raises:{name}:{type(e).__name__}", case, repr(e))
        return out.dump()
    vals = value_alphabet(want["base"])
    arr = np.array(vals, dtype=float)
    try:
        res = np.asarray(wrapped(arr.copy()), dtype=float)
    except Exception as e:  # noqa: BLE001
        out.violation(f"wrapper-raises:{name}:{type(e).__name__}", case, repr(e))
        return out.dump()
    for v, r in zip(vals, res.tolist()):
        out.step()
        why = judge(Fraction(v), r, want["base"], want["direction"], want.get("to_add_after_rounding"))
        if why:
            out.violation(f"wrong-rounding:{name}:{want['direction']}:{want['base']}", {**case, "value": v, "result": r}, f"{name} on {ds}: {why}")
            break
    # a missing or infinite value in one row must not change how the OTHER rows are rounded (rounding is per value)
    probe_vals = vals[:: max(len(vals) // 12, 1)]
    for special, sname in ((np.nan, "nan"), (np.inf, "inf"), (-np.inf, "-inf")):
        for pos in ("first", "last"):
            col = [special, *probe_vals] if pos == "first" else [*probe_vals, special]
            try:
                res2 = np.asarray(wrapped(np.array(col, dtype=float)), dtype=float).tolist()
            except Exception as e:  # noqa: BLE001
                out.violation(f"wrapper-raises-with-{sname}-row:{name}", {**case, "special": sname}, repr(e)[:200])
                continue
            res2 = res2[1:] if pos == "first" else res2[:-1]
            for v, r in zip(probe_vals, res2):
                out.step()
                why = judge(Fraction(v), r, want["base"], want["direction"], want.get("to_add_after_rounding"))
                if why:
                    out.violation(f"wrong-rounding-next-to-{sname}-row:{name}", {**case, "value": v, "result": r, "special": sname, "position": pos},
                                  f"{name} on {ds} with a {sname} value in the {pos} row: {why}")
                    break
    # other output kinds a rule can have: a Python / numpy scalar (parameter-only rules), an integer array, a short array
    def stub_of(value):
        def stub2():
            return value
        stub2.__name__ = name
        stub2.__info__ = {"params_key_for_rounding": g, "name_in_dag": name}
        return IF._add_rounding_to_functions({name: stub2}, p)[name]

    probes = [vals[3], vals[len(vals) // 2], vals[-4]]
    for v in probes:
        for label, value in (("python-float", float(v)), ("numpy-scalar", np.float64(v)), ("one-element-array", np.array([v])), ("int-array", np.array([int(round(v))] * 3))):
            try:
                r = stub_of(value)()
            except Exception:  # noqa: BLE001
                out.count("scalar_probe_raises")  # loud, e.g. a Python float has no .round(); production hands numpy values to the wrapper
                continue
            out.step()
            r0 = float(np.asarray(r, dtype=float).reshape(-1)[0])
            u = float(int(round(v))) if label == "int-array" else float(v)
            why = judge(Fraction(u), r0, want["base"], want["direction"], want.get("to_add_after_rounding"))
            if why:
                out.violation(f"wrong-rounding:{name}:{want['direction']}:{want['base']}:{label}", {**case, "value": u, "result": r0, "kind": label}, f"{name} on {ds} ({label}): {why}")
    out.outcome((want["base"], want["direction"], want.get("to_add_after_rounding")))
    out.sample(case, limit=1)
    return out.dump()


def task_wrapper_joint(ds):
    """All rules with a rounding spec at this date wrapped in ONE call of _add_rounding_to_functions (two orders): no state may leak between rules."""
    out = Partial()
    d = datetime.date.fromisoformat(ds)
    p, _ = harness.env(ds)
    stubs = {}
    specs = {}
    for g in RP.groups():
        for name, spec in RP.raw_params(g, d).get("rounding", {}).items():
            def stub(x):
                return x
            stub.__name__ = name
            stub.__info__ = {"params_key_for_rounding": g, "name_in_dag": name}
            stubs[name] = stub
            specs[name] = spec
    for order in (sorted(stubs), sorted(stubs, reverse=True)):
        try:
            wrapped = IF._add_rounding_to_functions({k: stubs[k] for k in order}, p)
        except Exception as e:  # noqa: BLE001
            out.violation(f"joint-wrapper-raises:{type(e).__name__}", {"date": ds}, repr(e)[:200])
            continue
        for name in order:
            want = specs[name]
            vals = value_alphabet(want["base"])[::7]
            res = np.asarray(wrapped[name](np.array(vals, dtype=float)), dtype=float)
            out.state(("joint", name, ds, order[0]))
            for v, r in zip(vals, res.tolist()):
                out.step()
                why = judge(Fraction(v), r, want["base"], want["direction"], want.get("to_add_after_rounding"))
                if why:
                    out.violation(f"wrong-rounding-when-wrapped-together:{name}", {"date": ds, "rule": name, "spec": want, "value": v, "result": r, "first_in_call": order[0]},
                                  f"{name} on {ds}, wrapped in one call with {len(order)} rules: {why}")
                    break
    return out.dump()


def task_missing_spec(arg):
    """A rule with a rounding key but no spec must raise; a rule active at a date must have its spec."""
    ds = arg
    out = Partial()
    d = datetime.date.fromisoformat(ds)
    p, f = harness.env(ds)
    for name, fn in f.items():
        key = getattr(fn, "__info__", {}).get("params_key_for_rounding")
        if not key:
            continue
        out.state(("missing", name, ds))
        out.step()
        has = name in p.get(key, {}).get("rounding", {})
        # independent expectation from the raw parameter file: a spec is in force iff one of its key dates is <= the date
        try:
            raw_keys = [x for x in RP.raw_group(key).get("rounding", {}).get(name, {}) if isinstance(x, datetime.date)]
            expected = any(x <= d for x in raw_keys)
        except Exception:  # noqa: BLE001
            expected = has
        if has != expected:
            out.violation(f"spec-in-force-differs-from-parameter-file:{name}", {"rule": name, "date": ds, "loaded": has, "key_dates": [x.isoformat() for x in raw_keys]},
                          f"{name} on {ds}: environment {'has' if has else 'lacks'} a rounding spec, the parameter file's key dates are {[x.isoformat() for x in raw_keys]}")
        try:
            IF._add_rounding_to_functions({name: fn}, p)
            raised = False
        except KeyError:
            raised = True
        if not has and not raised:
            out.violation(f"missing-spec-silently-ignored:{name}", {"rule": name, "date": ds}, "rule has a rounding key, no spec at this date, and no error")
        if has and raised:
            out.violation(f"spec-present-but-error:{name}", {"rule": name, "date": ds}, "")
        # remove the spec: must be an error, never a silent no-op
        import copy
        q = {k: (copy.deepcopy(v) if k == key else v) for k, v in p.items()}
        q[key].get("rounding", {}).pop(name, None)
        try:
            IF._add_rounding_to_functions({name: fn}, q)
            out.violation(f"missing-spec-silently-ignored:{name}", {"rule": name, "date": ds, "spec_removed": True}, "spec removed from params: no error raised")
        except KeyError:
            pass
        if not has and d >= datetime.date(2015, 1, 1):
            out.count("active_rule_without_spec_after_2015")
    return out.dump()


_TIME_RE = re.compile(r"(?P<base>.*_)(?P<unit>[ymwd])(?P<agg>" + "|".join(f"_{g}" for g in SUPPORTED_GROUPINGS) + ")?")


def task_graph(arg):
    """Real rules: rounded value vs. the rule's own unrounded output on the same inputs; derived nodes not re-rounded."""
    ds, names = arg
    out = Partial()
    year = int(ds[:4])
    df = popgen.frame(popgen.combined(names, year))
    p, f = harness.env(ds)
    cols = tuple(df.columns)
    try:
        nodes, dag = sim.node_list(f, cols)
        R = sim.sim(df, ds, targets=nodes)  # noqa: N806
        R0 = sim.sim(df, ds, targets=nodes, rounding=False)  # noqa: N806
    except Exception as e:  # noqa: BLE001
        if sim.known_crash(ds, e):
            out.count("graph_sims_skipped_known_C08_crash")
        else:
            out.violation(f"graph:simulation-raises:{type(e).__name__}", {"date": ds, "households": names}, repr(e))
        return out.dump()
    from _gettsim.functions_loader import load_and_check_functions

    fn_all, _ = load_and_check_functions(f, nodes, list(cols), {}, {})
    # the rounding key attached by the decorator must survive vectorisation / partialling for exactly the rules that carry it
    from mc.ref import registry as RR
    import datetime as _dt

    decl = {r["dag_name"]: r["rounding_key"] for rs in RR.active(_dt.date.fromisoformat(ds)).values() for r in rs}
    proc = IF._round_and_partial_parameters_to_functions({k: fn_all[k] for k in nodes}, p, rounding=False)
    for n in nodes:
        if n in f:
            for stage, fobj in (("vectorised", fn_all[n]), ("partialled", proc[n])):
                have = (getattr(fobj, "__info__", {}) or {}).get("params_key_for_rounding")
                if have != decl.get(n):
                    out.violation(f"graph:{n}:rounding-key-{stage}-differs-from-decorator", {"date": ds, "node": n},
                                  f"{n}: decorator declares rounding key {decl.get(n)!r}, the {stage} function carries {have!r}")
    raw = IF._round_and_partial_parameters_to_functions({k: fn_all[k] for k in nodes}, p, rounding=False)
    vals = {**{c: df[c].to_numpy() for c in df.columns}, **{c: R[c].to_numpy() for c in R.columns}}
    vals0 = {**{c: df[c].to_numpy() for c in df.columns}, **{c: R0[c].to_numpy() for c in R0.columns}}
    for n in nodes:
        info = getattr(fn_all[n], "__info__", {}) or {}
        key = info.get("params_key_for_rounding")
        args = [a for a in inspect.signature(raw[n]).parameters if not a.endswith("_params")]
        if key:
            spec = p[key]["rounding"][n]
            case = {"date": ds, "households": names, "node": n, "spec": spec}
            out.state(("graph", n, ds[:4]))
            try:
                U = np.broadcast_to(np.asarray(raw[n](**{a: vals[a] for a in args}), dtype=float), (len(df),))  # noqa: N806
                U0 = np.broadcast_to(np.asarray(raw[n](**{a: vals0[a] for a in args}), dtype=float), (len(df),))  # noqa: N806
            except Exception as e:  # noqa: BLE001
                out.violation(f"graph:{n}:raw-rule-raises:{type(e).__name__}", case, repr(e))
                continue
            r = np.broadcast_to(np.asarray(vals[n], dtype=float), (len(df),))
            r0 = np.broadcast_to(np.asarray(vals0[n], dtype=float), (len(df),))
            for i in range(len(df)):
                out.step()
                why = judge(Fraction(float(U[i])), float(r[i]), spec["base"], spec["direction"], spec.get("to_add_after_rounding"))
                if why:
                    out.violation(f"graph:{n}:wrong-rounding", {**case, "row": i, "unrounded": float(U[i]), "rounded": float(r[i])}, f"{n} on {ds}: {why}")
                    break
                if not (r0[i] == U0[i] or (np.isnan(r0[i]) and np.isnan(U0[i]))):
                    out.violation(f"graph:{n}:rounding-off-differs-from-raw", {**case, "row": i}, f"rounding=False gives {r0[i]}, raw rule gives {U0[i]}")
                    break
            out.outcome((n, bool(np.any(U != r))))
        else:
            # derived time-unit node of a rounded rule: must not be rounded again
            m = _TIME_RE.fullmatch(n)
            if m and len(args) == 1 and n not in f:
                src = args[0]
                ms = _TIME_RE.fullmatch(src)
                src_info = getattr(fn_all.get(src), "__info__", {}) or {}
                if ms and ms.group("base") == m.group("base") and src_info.get("params_key_for_rounding"):
                    conv = TC._time_conversion_functions[f"{ms.group('unit')}_to_{m.group('unit')}"]
                    want = conv(np.asarray(vals[src], dtype=float))
                    got = np.asarray(vals[n], dtype=float)
                    out.step()
                    out.state(("derived", n, ds[:4]))
                    if "params_key_for_rounding" in info:
                        out.violation(f"graph:{n}:derived-node-carries-rounding-key", {"date": ds, "node": n}, "")
                    if not np.array_equal(want, got, equal_nan=True):
                        out.violation(f"graph:{n}:derived-node-differs-from-converted-parent", {"date": ds, "node": n, "households": names},
                                      f"{got.tolist()} vs converter({src}) {want.tolist()}")
    out.sample({"graph": ds, "households": names}, limit=1)
    return out.dump()


def replay(case):
    if "special" in case:
        part = task_wrapper((case["group"], case["rule"], case["date"]))
        v = [x for x in part["violations"] if "-row:" in x[0]]
        return not v, "; ".join(x[2] for x in v[:2])
    if "first_in_call" in case:
        part = task_wrapper_joint(case["date"])
        v = [x for x in part["violations"] if x[1].get("rule") == case["rule"]]
        return not v, "; ".join(x[2] for x in v[:2])
    if "value" in case:
        ds, g, name = case["date"], case["group"], case["rule"]
        p, _ = harness.env(ds)

        def stub(x):
            return x

        stub.__name__ = name
        stub.__info__ = {"params_key_for_rounding": g, "name_in_dag": name}
        wrapped = IF._add_rounding_to_functions({name: stub}, p)[name]
        r = float(np.asarray(wrapped(np.array([case["value"]], dtype=float)))[0])
        sp = case["spec"]
        why = judge(Fraction(float(case["value"])), r, sp["base"], sp["direction"], sp.get("to_add_after_rounding"))
        return why is None, f"{name}({case['value']!r}) -> {r!r}: {why}"
    return True, "re-run the check for this case kind"


def run(tier):
    rep = Reporter("C10", tier)
    thorough = tier == "thorough"
    vers = spec_versions()
    # every spec entry at its first day, and at every later change date while it stays in force
    cds = [d for d in popgen.change_dates() if d >= datetime.date(1980, 1, 1)]
    tasks = set()
    for g, fn, ks in vers:
        tasks.add((g, fn, ks))
        # the day before a spec changes and 1 January of that year still belong to the previous spec
        keys = sorted(x for x in RP.raw_group(g)["rounding"][fn] if isinstance(x, datetime.date))
        k = datetime.date.fromisoformat(ks)
        if k != keys[0]:
            tasks.add((g, fn, (k - datetime.timedelta(days=1)).isoformat()))
            if datetime.date(k.year, 1, 1) >= keys[0]:
                tasks.add((g, fn, datetime.date(k.year, 1, 1).isoformat()))
    if thorough:
        for g in RP.groups():
            for fn, spec in RP.raw_group(g).get("rounding", {}).items():
                keys = sorted(x for x in spec if isinstance(x, datetime.date))
                for d in cds:
                    if d >= keys[0]:
                        tasks.add((g, fn, d.isoformat()))
    for part in harness.pmap(task_wrapper, harness.rotate(sorted(tasks)), chunksize=4):
        rep.merge(part)
    jdates = sorted({ks for _, _, ks in vers} | {"2015-01-01", "2023-01-01"})
    for part in harness.pmap(task_wrapper_joint, jdates):
        rep.merge(part)
    dates = [d.isoformat() for d in (popgen.d15() if thorough else popgen.quick_dates(4))] + (["2001-01-01", "2002-01-01", "2004-01-01", "2009-01-01"])
    # the day before (and the 1 January before) the FIRST spec of every rule: no spec is in force yet
    for g in RP.groups():
        for fn_, spec in RP.raw_group(g).get("rounding", {}).items():
            keys = sorted(x for x in spec if isinstance(x, datetime.date))
            if keys and keys[0] > datetime.date(1984, 1, 1):
                dates.append((keys[0] - datetime.timedelta(days=1)).isoformat())
                dates.append(datetime.date(keys[0].year - 1, 1, 1).isoformat())
    dates = sorted(set(dates))
    for part in harness.pmap(task_missing_spec, dates):
        rep.merge(part)
    combos = [["couple_kids", "single_parent", "pensioners"], ["patchwork", "poor_pensioner", "parental_leave"],
              ["three_gen", "unemployed", "self_employed", "erwerbsgemindert", "young_adult", "parent_elsewhere", "single"]]
    gdates = [d.isoformat() for d in (popgen.d15() if thorough else popgen.quick_dates(4))]
    for part in harness.pmap(task_graph, harness.rotate([(d, c) for d in gdates for c in combos])):
        rep.merge(part)
    rep.bound = {"spec_versions": len(vers), "wrapper_cases": len(tasks), "values_per_spec": len(value_alphabet(0.01)), "graph_dates": gdates}
    rep.assumptions = [
        "exact oracle in Fractions: U = exact binary value of the unrounded float, B = decimal base as written in the YAML",
        "a value within 1e-9 relative of a grid point that is not exactly representable may be rounded either as the exact binary value or as the "
        "decimal it stands for (0.01*floor(x/0.01) is exact-arithmetic-correct and must not be flagged)",
        "'nearest' accepts either neighbour at exact half-way points",
    ]
    return rep.finish(
        "every rounding spec entry of every parameter file (thorough: at every later change date, too) x a value alphabet of grid points, "
        "half-way points, +-epsilon, +-1ulp, negatives and large values through the real rounding wrapper; every rule with a rounding key in "
        "all-nodes simulations judged against its own unrounded output on the same inputs (rounding on and off); derived time-unit nodes "
        "bit-equal to the converted rounded parent; missing spec must raise"
    )
