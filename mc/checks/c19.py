"""C19 - employee social-insurance contributions follow the statutory shape in the wage."""
from __future__ import annotations

import datetime

import numpy as np
import pandas as pd

from mc import harness, popgen, sim
from mc.evidence import Partial, Reporter

BRANCHES = {
    "ges_rentenv": "rv",
    "arbeitsl_v": "rv",  # same assessment ceiling as pension insurance
    "ges_krankenv": "kv",
    "ges_pflegev": "kv",
}
TARGETS = (
    [f"{b}_beitr_arbeitnehmer_m" for b in BRANCHES]
    + [f"{b}_beitr_arbeitgeber_m" for b in BRANCHES]
    + [f"_{b}_beitr_midijob_sum_arbeitnehmer_arbeitgeber_m" for b in BRANCHES]
    + ["in_gleitzone", "geringfügig_beschäftigt", "minijob_grenze", "_ges_rentenv_beitr_bemess_grenze_m", "_ges_krankenv_beitr_bemess_grenze_m"]
)


def lattice(params, ost, step, mini):
    sv = params["sozialv_beitr"]
    midi = sv["geringfügige_eink_grenzen_m"]["midijob"]
    reg = "ost" if ost else "west"
    ceil_rv = sv["beitr_bemess_grenze_m"]["ges_rentenv"][reg]
    ceil_kv = sv["beitr_bemess_grenze_m"]["ges_krankenv"][reg]
    top = max(ceil_rv, ceil_kv) + 1000.0
    pts = set(np.arange(0.0, top + step, step).tolist())
    for b in (mini, midi, ceil_rv, ceil_kv):
        for dlt in (0.0, 0.01, -0.01, 1.0, -1.0):
            pts.add(float(b) + dlt)
        pts.add(float(np.nextafter(b, np.inf)))
        pts.add(float(np.nextafter(b, -np.inf)))
    pts = sorted(x for x in pts if x >= 0.0)
    return pts, dict(minijob=float(mini), midijob=float(midi), ceil_rv=float(ceil_rv), ceil_kv=float(ceil_kv))


def build(wages, year, ost, kids, count_column=False, age=35, pension=0.0):
    """kids: number of children under 25 (0, 1, 2, 5). From 2023-07-01 the number matters (discount per child); it is supplied as the
    computed column ges_pflegev_anz_kinder_bis_24 because the lattice frame holds one single-person household per wage."""
    n = len(wages)
    base = popgen.person(1, 1, age, year, wohnort_ost=ost, ges_pflegev_hat_kinder=bool(kids), arbeitsstunden_w=40.0, priv_rente_m=float(pension))
    data = {k: np.repeat(np.asarray([v]), n) for k, v in base.items()}
    if count_column:
        data["ges_pflegev_anz_kinder_bis_24"] = np.repeat(np.asarray([int(kids)]), n)
    data["p_id"] = np.arange(1, n + 1)
    data["hh_id"] = np.arange(1, n + 1)
    data["bruttolohn_m"] = np.asarray(wages, dtype=float)
    return popgen.frame(pd.DataFrame(data))


def check_frame(out, res, wages, b, ds, cfg):
    w = np.asarray(wages)
    mini_node = float(res["minijob_grenze"].iloc[0])
    gering = res["geringfügig_beschäftigt"].to_numpy()
    gleit = res["in_gleitzone"].to_numpy()
    case0 = {"date": ds, **cfg}
    if mini_node != b["minijob"]:
        out.violation("minijob_grenze-depends-on-rows", case0, f"{mini_node} vs {b['minijob']}")
    for br, ck in BRANCHES.items():
        emp = res[f"{br}_beitr_arbeitnehmer_m"].to_numpy(dtype=float)
        agb = res[f"{br}_beitr_arbeitgeber_m"].to_numpy(dtype=float)
        tot = res[f"_{br}_beitr_midijob_sum_arbeitnehmer_arbeitgeber_m"].to_numpy(dtype=float)
        out.state((br, ds, cfg["ost"], cfg["kids"], cfg.get("age", 35), cfg.get("pension", 0.0)))
        out.step(len(w))
        sig = lambda k: f"{br}:{k}"  # noqa: E731

        def case(i):
            return {**case0, "branch": br, "bruttolohn_m": float(w[i]), "value": float(emp[i]), "index": int(i)}

        if not np.isfinite(emp).all():
            i = int(np.argmin(np.isfinite(emp)))
            out.violation(sig("non-finite"), case(i), f"{emp[i]}")
            continue
        neg = emp < 0
        if neg.any():
            i = int(np.argmax(neg))
            out.violation(sig("negative"), case(i), f"{br} employee contribution {emp[i]} at wage {w[i]}")
        d = np.diff(emp)
        dec = d < -1e-9
        if dec.any():
            i = int(np.argmax(dec))
            out.violation(sig("decreasing"), {**case(i + 1), "previous_wage": float(w[i]), "previous_value": float(emp[i])},
                          f"{br}: {emp[i]} at {w[i]} > {emp[i + 1]} at {w[i + 1]} on {ds}")
        marg = (w <= mini_node) | gering
        has_pension = bool(cfg.get("pension"))  # contributions on the pension come on top: only the shape in the wage is judged
        bad = marg & (emp != 0)
        if bad.any() and not has_pension:
            i = int(np.argmax(bad))
            out.violation(sig("nonzero-for-marginal-employment"), case(i), f"{br}: {emp[i]} at wage {w[i]} <= {mini_node}")
        if not np.array_equal(gering, w <= mini_node):
            i = int(np.argmax(gering != (w <= mini_node)))
            out.violation("geringfügig_beschäftigt-differs-from-limit", case(i), f"wage {w[i]} limit {mini_node} flag {gering[i]}")
        ceil = b["ceil_rv"] if ck == "rv" else b["ceil_kv"]
        above = w >= ceil
        if above.any():
            ref = emp[above][0]
            badc = above & (np.abs(emp - ref) > 1e-9 * max(1.0, abs(ref)))
            if badc.any():
                i = int(np.argmax(badc))
                out.violation(sig("not-constant-above-ceiling"), case(i), f"{br}: {emp[i]} at {w[i]} vs {ref} at the ceiling {ceil}")
            if ref <= 0:
                out.violation(sig("zero-at-ceiling"), case(int(np.argmax(above))), "")
        # meeting at the upper zone boundary
        iu = int(np.searchsorted(w, b["midijob"]))
        if iu + 1 < len(w) and w[iu] == b["midijob"]:
            # next lattice point above the boundary is at most one cent away (nextafter / +0.01 are in the lattice)
            j = iu + 1
            while j < len(w) and w[j] - b["midijob"] < 0.0099:
                j += 1
            jump = emp[j] - emp[iu]
            if not (-1e-9 <= jump <= 0.01 + 1e-9):
                out.violation(sig("jump-at-upper-zone-boundary"), {**case(iu), "next_wage": float(w[j]), "next_value": float(emp[j])},
                              f"{br}: {emp[iu]} at {w[iu]} (transition zone) vs {emp[j]} at {w[j]} (regular) on {ds}")
            if not gleit[iu] or gleit[j]:
                out.violation("in_gleitzone-boundary", case(iu), f"in_gleitzone at {w[iu]}={gleit[iu]}, at {w[j]}={gleit[j]}")
        # employee + employer == total inside the zone
        z = gleit
        if z.any() and not has_pension:
            diff = np.abs(emp[z] + agb[z] - tot[z])
            badz = diff > 1e-9 * np.maximum(1.0, np.abs(tot[z]))
            if badz.any():
                i = int(np.flatnonzero(z)[np.argmax(badz)])
                out.violation(sig("shares-do-not-sum-to-total-in-zone"), {**case(i), "employer": float(agb[i]), "total": float(tot[i])},
                              f"{br}: {emp[i]} + {agb[i]} != {tot[i]} at wage {w[i]} on {ds}")
            out.outcome((br, "zone", int(z.sum()) > 0))
        out.outcome((br, ds[:4], bool(above.any()), bool(marg.any())))


def task(arg):
    ds, ost, kids, step = arg[:4]
    age = arg[4] if len(arg) > 4 else 35
    pension = arg[5] if len(arg) > 5 else 0.0
    out = Partial()
    year = int(ds[:4])
    p, f = harness.env(ds)
    cfg = {"ost": ost, "kids": kids, "age": age}
    if pension:
        cfg["pension"] = pension
    cc = "ges_pflegev_anz_kinder_bis_24" in f
    if kids > 1 and not cc:
        return out.dump()  # before 2023-07-01 only 'has children' matters
    try:
        pre = sim.sim(build([1000.0], year, ost, kids, cc, age), ds, targets=["minijob_grenze", "geringfügig_beschäftigt"])
        wages, b = lattice(p, ost, step, float(pre["minijob_grenze"].iloc[0]))
        df = build(wages, year, ost, kids, cc, age, pension)
        cfg["boundaries"] = b
        res = sim.sim(df, ds, targets=TARGETS)
    except Exception as e:  # noqa: BLE001
        if sim.known_crash(ds, e):
            out.count("frames_skipped_known_C08_crash")
        else:
            out.violation(f"simulation-raises:{type(e).__name__}", {"date": ds, **cfg}, repr(e))
        return out.dump()
    check_frame(out, res, wages, b, ds, cfg)
    out.sample({"date": ds, "ost": ost, "kids": kids, "rows": len(wages), "boundaries": b}, limit=1)
    return out.dump()


def replay(case):
    ds = case["date"]
    year = int(ds[:4])
    p, f = harness.env(ds)
    wages = sorted({float(case["bruttolohn_m"]), float(case.get("previous_wage", case["bruttolohn_m"])), float(case.get("next_wage", case["bruttolohn_m"]))})
    df = build(wages, year, case["ost"], case["kids"], "ges_pflegev_anz_kinder_bis_24" in f, case.get("age", 35), case.get("pension", 0.0))
    res = sim.sim(df, ds, targets=TARGETS)
    col = f"{case['branch']}_beitr_arbeitnehmer_m"
    vals = dict(zip(wages, res[col].tolist()))
    ok = abs(vals[float(case["bruttolohn_m"])] - case["value"]) > 1e-12
    return ok, f"{col} on {ds}: {vals} (recorded {case['value']})"


def run(tier):
    rep = Reporter("C19", tier)
    thorough = tier == "thorough"
    if thorough:
        dates = sorted({d for cls in popgen.d15_classes() for d in cls})
        step = 0.25
    else:
        dates = popgen.d15()
        step = 1.0
    tasks = [(d.isoformat(), ost, kids, step) for d in dates for ost in (False, True) for kids in (0, 1, 2, 5)]
    # a childless employee below the age from which the childless surcharge applies (23)
    tasks += [(d.isoformat(), ost, 0, step, 21) for d in dates for ost in (False, True)]
    # an employee who also draws a (private / company) pension: contributions on the pension come on top of those on the wage
    tasks += [(d.isoformat(), ost, kids, step, 35, pens) for d in dates for ost in (False, True) for kids, pens in ((1, 900.0), (0, 2500.0))]
    for part in harness.pmap(task, harness.rotate(tasks)):
        rep.merge(part)
    rep.bound = {"dates": [d.isoformat() for d in dates], "lattice_step_eur": step, "configs": "east/west x 0/1/2/5 children under 25 (2 and 5 only from 2023-07-01, when the number matters)",
                 "person": "employee aged 35 (and childless aged 21; and with a private pension of 900 / 2500 on top of the wage), not self-employed, not retired, statutory health insurance"}
    rep.assumptions = ["monotonicity is checked between consecutive lattice points (step as stated) plus every statutory boundary +-0.01 / +-1 ulp",
                       "dates inside the recorded C08 crash window (2017-01-01..2017-06-30) cannot be simulated and are counted as skipped"]
    return rep.finish(
        "wage lattice 0..highest ceiling+1000 (quick 1 EUR, thorough 0.25 EUR) plus minijob/midijob limits and both ceilings +-0.01, +-1, +-1 ulp, "
        "x east/west x children x change dates >= 2015 through compute_taxes_and_transfers; a state is (branch, date, region, children); oracle on "
        "consecutive points: non-negative, non-decreasing, zero up to the minijob limit, constant above the ceiling, jump at the upper zone "
        "boundary <= 1 cent, employee + employer == total inside the zone"
    )
