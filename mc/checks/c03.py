"""C03 - each column value equals the scalar rule applied to that row; dtype follows the declaration."""
from __future__ import annotations

import inspect

import numpy as np

from mc import harness, popgen, sim
from mc.evidence import Partial, Reporter
from _gettsim.functions_loader import _vectorize_func
from _gettsim.interface import _round_and_partial_parameters_to_functions

KIND = {float: "f", int: "iu", bool: "b"}


def declared_kind(func):
    ann = getattr(func, "__annotations__", {}).get("return")
    if ann in KIND:
        return KIND[ann]
    if ann is np.datetime64 or "datetime64" in str(ann):
        return "M"
    return None


def scalar_rules(functions):
    return {k: v for k, v in functions.items() if not (getattr(v, "__info__", {}) or {}).get("skip_vectorization")}


def _item(x):
    if isinstance(x, np.generic):
        if x.dtype.kind == "M":
            return x.astype("datetime64[D]")  # the unit the rules see inside the graph
        return x.item()
    return x


def harvest_task(arg):
    """Run all-nodes simulations and collect, per rule, the distinct argument tuples it receives; also the graph-level row check."""
    date_iso, label, rows_list = arg
    out = Partial()
    p, f = harness.env(date_iso)
    rules = scalar_rules(f)
    raw = _round_and_partial_parameters_to_functions(dict(rules), p, rounding=False)
    tuples = {}
    for rows in rows_list:
        df = popgen.frame(rows)
        try:
            r = sim.sim_all(df, date_iso, rounding=False)
        except Exception as e:  # noqa: BLE001
            if sim.known_crash(date_iso, e):
                out.count("sims_skipped_known_C08_crash")
            else:
                out.count("sims_failed_other")
                out.setadd("sim_failures", f"{type(e).__name__}:{str(e)[:80]}")
            continue
        out.count("harvest_sims")
        full = {**{c: df[c].to_numpy() for c in df.columns}, **{c: r[c].to_numpy() for c in r.columns}}
        for n in r.columns:
            if n not in rules or n in df.columns:
                continue
            args = [a for a in inspect.signature(rules[n]).parameters if not a.endswith("_params")]
            if not all(a in full for a in args):
                continue
            col = full[n]
            for i in range(len(df)):
                tup = tuple(_item(full[a][i]) for a in args)
                tuples.setdefault(n, set()).add(tup)
                # graph level: the column holds, in this row, what the rule returns for this row's inputs
                try:
                    want = raw[n](**dict(zip(args, tup)))
                except Exception:  # noqa: BLE001
                    continue
                out.step()
                got = _item(col[i])
                if not _same_value(got, want):
                    out.violation(f"graph-row:{n}", {"date": date_iso, "rule": n, "args": dict(zip(args, tup)), "household": label, "row": i},
                                  f"{n} on {date_iso}: column holds {got!r}, rule returns {want!r} for this row's inputs")
    d = out.dump()
    d["tuples"] = {k: sorted(v, key=repr) for k, v in tuples.items()}
    return d


def _same_value(got, want):
    try:
        if isinstance(want, (float, np.floating)) and want != want:
            return got != got
        if isinstance(want, (np.datetime64,)) or isinstance(got, np.datetime64):
            return np.datetime64(got, "s") == np.datetime64(want, "s")
        return got == want and (not isinstance(want, bool) or bool(got) == want)
    except Exception:  # noqa: BLE001
        return False


def pairs_task(arg):
    """Every ordered pair (first row, other row) of harvested tuples through the production wrapper as a 2-row array."""
    date_iso, items, cap = arg
    out = Partial()
    p, f = harness.env(date_iso)
    rules = scalar_rules(f)
    names = [n for n, _ in items]
    proc = _round_and_partial_parameters_to_functions({n: _vectorize_func(rules[n]) for n in names}, p, rounding=False)
    raw = _round_and_partial_parameters_to_functions({n: rules[n] for n in names}, p, rounding=False)
    for n, T in items:
        args = [a for a in inspect.signature(rules[n]).parameters if not a.endswith("_params")]
        if not args:
            continue
        T = [tuple(t) for t in T][:cap]
        exp = {}
        for b in T:
            try:
                exp[b] = raw[n](**dict(zip(args, b)))
            except Exception as e:  # noqa: BLE001
                exp[b] = e
        T = [t for t in T if not isinstance(exp[t], Exception)]
        out.state((n, date_iso))
        dk = declared_kind(rules[n])
        kinds = {}
        for a in T:
            for b in T:
                cols = {}
                for k, x, y in zip(args, a, b):
                    cols[k] = np.array([x, y])
                try:
                    res = proc[n](**cols)
                except Exception as e:  # noqa: BLE001
                    out.violation(f"wrapper-raises:{n}:{type(e).__name__}", {"date": date_iso, "rule": n, "first": dict(zip(args, a)), "other": dict(zip(args, b))}, repr(e)[:300])
                    continue
                out.step()
                res = np.asarray(res)
                kinds.setdefault(res.dtype.kind, (a, b))
                if not _same_value(_item(res[1]), exp[b]):
                    out.violation(f"value-depends-on-first-row:{n}",
                                  {"date": date_iso, "rule": n, "first_row": dict(zip(args, a)), "row": dict(zip(args, b)), "column_value": _item(res[1]), "rule_value": exp[b],
                                   "dtype": str(res.dtype)},
                                  f"{n} on {date_iso}: with first row {dict(zip(args, a))} the row {dict(zip(args, b))} gets {res[1]!r} ({res.dtype}), the rule returns {exp[b]!r}")
        if len(kinds) > 1:
            out.violation(f"dtype-depends-on-data:{n}", {"date": date_iso, "rule": n, "dtypes": {k: {"first": dict(zip(args, v[0]))} for k, v in kinds.items()}},
                          f"{n} on {date_iso}: column dtype kind is one of {sorted(kinds)} depending on the first row")
        elif kinds and dk and next(iter(kinds)) not in dk:
            a, b = next(iter(kinds.values()))
            out.violation(f"dtype-differs-from-declaration:{n}", {"date": date_iso, "rule": n, "declared": dk, "dtype_kind": next(iter(kinds)), "first": dict(zip(args, a))},
                          f"{n} on {date_iso}: declared kind {dk}, column dtype kind {next(iter(kinds))}")
        out.outcome((n, tuple(sorted(kinds))))
    out.sample({"date": date_iso, "rules": names[:3], "tuples_first_rule": len(items[0][1]) if items else 0}, limit=1)
    return out.dump()


# ------------------------------------------------------------------ synthetic tuples: every rule of every period
SYN = {
    float: [0.0, 0.5, 235.85, 1800.0, 100000.0, -10.0],
    int: [0, 1, 2, 18, 25, 30, 70],
    bool: [False, True],
}


def _int_alphabet(name, year):
    """Integer arguments by what their name says they are: calendar years around the rule's date and the cohorts statutes single out,
    months, days, ages, counts."""
    if "jahr" in name and "jahre" not in name:  # geburtsjahr, jahr_renteneintr, ... (not 'years of ...')
        return sorted({year - 67, year - 40, 1947, 1952, 1964, 1990, 2006, 2007, year - 18, year - 3, year - 1, year, year + 1})
    if "monat" in name and not name.startswith(("m_", "monate")):
        return [1, 6, 12]
    if name.endswith("tag"):
        return [1, 15, 31]
    return SYN[int]


def synthetic_tuples(func, cap=300, year=2020):
    """Base tuple, all single and all pairwise deviations over typed alphabets (k <= 2), capped."""
    import itertools

    args = [a for a in inspect.signature(func).parameters if not a.endswith("_params")]
    ann = func.__annotations__
    alph = []
    for a in args:
        t = ann.get(a)
        if t is int:
            alph.append(_int_alphabet(a, year))
        elif t in SYN:
            alph.append(SYN[t])
        elif t is np.datetime64 or "datetime" in str(t):
            alph.append([np.datetime64("1950-03-01"), np.datetime64("2001-12-31")])
        else:
            alph.append([0.0, 1.0, 235.85])
    base = tuple(x[1] if len(x) > 1 else x[0] for x in alph)
    out = [base]
    seen = {repr(base)}
    for i in range(len(args)):
        for v in alph[i]:
            t = base[:i] + (v,) + base[i + 1:]
            if repr(t) not in seen:
                seen.add(repr(t))
                out.append(t)
    for i, j in itertools.combinations(range(len(args)), 2):
        for v in alph[i]:
            for w in alph[j]:
                t = list(base)
                t[i], t[j] = v, w
                t = tuple(t)
                if repr(t) not in seen and len(out) < cap:
                    seen.add(repr(t))
                    out.append(t)
    return args, out


def synthetic_task(arg):
    """Rules that the >= 2015 populations never reach (other periods, other graphs): typed argument alphabets."""
    import datetime

    from _gettsim.functions_loader import load_internal_functions

    names, cap = arg
    out = Partial()
    fs = load_internal_functions()
    for name in names:
        func = fs[name]
        info = getattr(func, "__info__", {}) or {}
        if info.get("skip_vectorization"):
            continue
        s0 = max(info.get("start_date", datetime.date(1, 1, 1)), datetime.date(1985, 1, 1))
        e0 = min(info.get("end_date", datetime.date(9999, 12, 31)), datetime.date(2031, 1, 1))
        if s0 > e0:
            continue
        span = (e0 - s0).days
        cand = [s0, e0] + [s0 + datetime.timedelta(days=span * k // 3) for k in (1, 2)]
        if s0 <= datetime.date(2023, 1, 1) <= e0:
            cand.append(datetime.date(2023, 1, 1))
        rule_dates = sorted({c.replace(month=1, day=1) if s0 <= c.replace(month=1, day=1) else c for c in cand})
        for d in rule_dates:
            _synthetic_one(out, name, func, info, d, cap)
    return out.dump()


def _synthetic_one(out, name, func, info, d, cap):
    if True:
        date_iso = d.isoformat()
        try:
            p, _ = harness.env(date_iso)
        except Exception:  # noqa: BLE001
            out.count("synthetic_env_failed")
            return
        dag_name = info.get("name_in_dag", name)
        try:
            proc = _round_and_partial_parameters_to_functions({dag_name: _vectorize_func(func)}, p, rounding=False)[dag_name]
            raw = _round_and_partial_parameters_to_functions({dag_name: func}, p, rounding=False)[dag_name]
        except Exception:  # noqa: BLE001
            out.count("synthetic_partial_failed")
            return
        args, T = synthetic_tuples(func, year=d.year)
        if not args:
            return
        exp = {}
        with np.errstate(all="ignore"):
            for b in T:
                try:
                    v = raw(**dict(zip(args, b)))
                    if isinstance(v, (dict, list, tuple, str)) or v is None:
                        continue
                    exp[b] = v
                except Exception:  # noqa: BLE001
                    pass
        T = [t for t in T if t in exp][:cap]
        if len(T) < 2:
            out.count("synthetic_rules_without_usable_tuples")
            return
        out.state(("synthetic", name, date_iso))
        dk = declared_kind(func)
        kinds = {}
        for a in T:
            for b in T:
                cols = {k: np.array([x, y]) for k, x, y in zip(args, a, b)}
                try:
                    with np.errstate(all="ignore"):
                        res = np.asarray(proc(**cols))
                except Exception:  # noqa: BLE001
                    out.count("synthetic_wrapper_raises")
                    continue
                out.step()
                if res.shape != (2,):
                    continue
                kinds.setdefault(res.dtype.kind, (a, b))
                if not _same_value(_item(res[1]), exp[b]):
                    out.violation(f"value-depends-on-first-row:{dag_name}",
                                  {"date": date_iso, "rule": dag_name, "function": name, "first_row": dict(zip(args, a)), "row": dict(zip(args, b)),
                                   "column_value": _item(res[1]), "rule_value": exp[b], "dtype": str(res.dtype), "synthetic": True},
                                  f"{name} ({dag_name}) on {date_iso}: with first row {dict(zip(args, a))} the row {dict(zip(args, b))} gets {res[1]!r} ({res.dtype}), the rule returns {exp[b]!r}")
        if len(kinds) > 1:
            out.violation(f"dtype-depends-on-data:{dag_name}", {"date": date_iso, "rule": dag_name, "function": name, "synthetic": True,
                                                                 "dtypes": {k: {"first": dict(zip(args, v[0]))} for k, v in kinds.items()}},
                          f"{name} ({dag_name}) on {date_iso}: column dtype kind is one of {sorted(kinds)} depending on the first row")
        elif kinds and dk and next(iter(kinds)) not in dk:
            out.violation(f"dtype-differs-from-declaration:{dag_name}", {"date": date_iso, "rule": dag_name, "function": name, "declared": dk,
                                                                         "dtype_kind": next(iter(kinds)), "synthetic": True},
                          f"{name} ({dag_name}) on {date_iso}: declared kind {dk}, column dtype kind {next(iter(kinds))}")
        out.outcome((name, tuple(sorted(kinds))))


def replay(case):
    if case.get("synthetic") and "first_row" in case:
        from _gettsim.functions_loader import load_internal_functions

        func = load_internal_functions()[case["function"]]
        p, _ = harness.env(case["date"])
        n = case["rule"]
        proc = _round_and_partial_parameters_to_functions({n: _vectorize_func(func)}, p, rounding=False)[n]
        raw = _round_and_partial_parameters_to_functions({n: func}, p, rounding=False)[n]
        a, b = case["first_row"], case["row"]
        res = np.asarray(proc(**{k: np.array([a[k], b[k]]) for k in a}))
        want = raw(**b)
        return _same_value(_item(res[1]), want), f"column {res[1]!r} ({res.dtype}) rule {want!r}"
    date_iso, n = case["date"], case["rule"]
    p, f = harness.env(date_iso)
    rules = scalar_rules(f)
    proc = _round_and_partial_parameters_to_functions({n: _vectorize_func(rules[n])}, p, rounding=False)
    raw = _round_and_partial_parameters_to_functions({n: rules[n]}, p, rounding=False)
    if "first_row" in case:
        a, b = case["first_row"], case["row"]
        res = proc[n](**{k: np.array([a[k], b[k]]) for k in a})
        want = raw[n](**b)
        return _same_value(_item(np.asarray(res)[1]), want), f"column {np.asarray(res)[1]!r} ({np.asarray(res).dtype}) rule {want!r}"
    return True, "re-run the check"


def populations(date_iso, deviations, reduced):
    year = int(date_iso[:4])
    out = []
    for name in popgen.LIBRARY:
        rows = popgen.library_rows(name, year)
        out.append((name, [rows]))
        if deviations:
            devs = [new for _, _, _, new in popgen.deviations(rows, year, reduced=reduced, max_alts=2 if reduced else None)]
            for k in range(0, len(devs), 40):
                out.append((f"{name}+dev{k}", devs[k : k + 40]))
    return out


def _harvest_with_date(arg):
    return arg[0], harvest_task(arg)


def run(tier):
    rep = Reporter("C03", tier)
    thorough = tier == "thorough"
    dates = [d.isoformat() for d in (popgen.d15() if thorough else popgen.quick_dates(4))]
    dev_dates = set(dates[1::6]) if thorough else {dates[2]}
    tasks = []
    for d in dates:
        for label, rows_list in populations(d, d in dev_dates, reduced=not thorough):
            tasks.append((d, label, rows_list))
    per_date = {d: {} for d in dates}
    for d, part in harness.pmap(_harvest_with_date, harness.rotate(tasks)):
        t = part.pop("tuples")
        rep.merge(part)
        for n, T in t.items():
            per_date[d].setdefault(n, set()).update(T)
    cap = 150 if thorough else 60
    ptasks = []
    ntup = 0
    for d, store in per_date.items():
        items = sorted(((n, harness.rotate(sorted(T, key=repr))) for n, T in store.items()), key=lambda x: x[0])
        ntup += sum(len(T) for _, T in items)
        for k in range(0, len(items), 12):
            ptasks.append((d, items[k : k + 12], cap))
    for part in harness.pmap(pairs_task, harness.rotate(ptasks)):
        rep.merge(part)
    from _gettsim.functions_loader import load_internal_functions

    allnames = sorted(load_internal_functions())
    scap = 300 if thorough else 25
    for part in harness.pmap(synthetic_task, harness.rotate([(allnames[i::48], scap) for i in range(48)])):
        rep.merge(part)
    rep.bound = {"dates": sorted(per_date), "tuples_harvested": ntup, "synthetic_rules": len(allnames), "synthetic_pair_cap": scap, "pair_cap_per_rule": cap, "deviation_bound_k": 1,
                 "households": list(popgen.LIBRARY)}
    rep.assumptions = ["argument tuples are those the rules actually receive in the population universe (library households x single-attribute deviations)",
                       "a rule's 'value for a row' is the scalar function called with that row's inputs as Python scalars and the date's parameters"]
    return rep.finish(
        "per date and scalar rule: the distinct argument tuples harvested from all-nodes simulations of the library households (+ k=1 "
        "deviations), then every ordered pair (first row, other row) through the production wrapper (_vectorize_func + partialled params) "
        "as a 2-row array: second element must equal the scalar rule's value, dtype must not depend on the first row and must match the "
        "declared result type; graph level: every rule column equals the rule applied row-wise to its parent columns; in addition EVERY internal "
        "rule of every validity period (incl. those never reached by the >= 2015 populations) on typed argument alphabets (base tuple, all single "
        "and pairwise deviations) with the same pair oracle"
    )
