"""C07 - environment(date) is exactly the law in force that day.

State machine: state = environment(d), transition d -> d+1.  Every visited day is
compared with the reference resolver (mc/ref/params.py) and the AST-scanned registry
(mc/ref/registry.py); consecutive days are compared with each other (stutter invariant).
"""
from __future__ import annotations

import datetime
import itertools

from mc import harness, popgen
from mc.evidence import Partial, Reporter
from mc.ref import params as RP
from mc.ref import registry as RR

START = datetime.date(1980, 1, 1)
ONE = datetime.timedelta(days=1)


def _last_day():
    return max(popgen.change_dates()).replace(year=max(popgen.change_dates()).year + 1)


def _plus_year(d):
    try:
        return d.replace(year=d.year + 1)
    except ValueError:
        return d.replace(year=d.year + 1, day=28)


def allowed_change_days():
    """Days on which the environment may differ from the day before."""
    s = set(popgen.change_dates()) | set(RR.bounds())
    for g in RP.groups():
        rg = RP.raw_group(g)
        for p, spec in rg.items():
            if isinstance(spec, dict) and spec.get("access_different_date") == "vorjahr":
                for k in RP._keys(g, p):
                    s.add(_plus_year(k))
    return s


def _fun_table(functions):
    return sorted((k, f.__name__, f.__module__) for k, f in functions.items())


def task_days(days):
    """days: list of consecutive iso dates; the first one only seeds the stutter comparison."""
    out = Partial()
    allowed = allowed_change_days()
    prev = None
    for i, ds in enumerate(days):
        d = datetime.date.fromisoformat(ds)
        try:
            p, f = harness.fresh_env(ds)
        except Exception as e:  # noqa: BLE001
            out.violation(f"environment:exception:{type(e).__name__}", {"date": ds}, repr(e))
            prev = None
            continue
        dig = RP.digest(p)
        ft = _fun_table(f)
        fdig = hash(tuple(ft))
        if i > 0 or len(days) == 1:
            out.step()
            out.state((dig, fdig))
            # --- parameters against the reference resolver
            try:
                ref = RP.reference_params(d)
                diffs = RP.deep_diff(p, ref)
            except Exception as e:  # noqa: BLE001
                diffs = [f"/reference-failed: {e!r}"]
            for line in diffs:
                path = line.split(":")[0]
                out.violation(f"params:{path}", {"date": ds, "path": path}, line)
            # --- functions against the registry
            act = RR.active(d)
            for k in sorted(set(act) - set(f)):
                out.violation(f"functions:{k}:missing", {"date": ds, "name": k}, f"{k} should be active on {ds}")
            for k in sorted(set(f) - set(act)):
                out.violation(f"functions:{k}:unexpected", {"date": ds, "name": k}, f"{k} present on {ds} but no implementation is valid")
            for k, recs in act.items():
                if len(recs) != 1:
                    out.violation(f"functions:{k}:{len(recs)}-implementations", {"date": ds, "name": k}, str([r['func'] for r in recs]))
                elif k in f and (f[k].__name__ != recs[0]["func"] or f[k].__module__ != recs[0]["module"]):
                    out.violation(f"functions:{k}:wrong-implementation", {"date": ds, "name": k},
                                  f"environment has {f[k].__module__}.{f[k].__name__}, valid is {recs[0]['module']}.{recs[0]['func']}")
                elif k in f and recs[0]["decorated"]:
                    info = getattr(f[k], "__info__", None) or {}
                    want = {"start_date": recs[0]["start"], "end_date": recs[0]["end"], "name_in_dag": recs[0]["dag_name"],
                            "params_key_for_rounding": recs[0]["rounding_key"], "skip_vectorization": recs[0]["skip_vectorization"]}
                    got = {kk: info.get(kk) for kk in want}
                    if got != want:
                        out.violation(f"functions:{k}:metadata-differs-from-decorator", {"date": ds, "name": k}, f"__info__ {got} vs decorator {want}")
                    if not callable(f[k]) or getattr(f[k], "__wrapped__", None) is not None:
                        out.violation(f"functions:{k}:not-the-plain-rule", {"date": ds, "name": k}, "the environment holds a wrapper instead of the rule itself")
            if p.get("eink_st", {}).get("datum") is not None:
                import numpy as np
                for g in RP.groups():
                    if p[g].get("datum") != np.datetime64(d):
                        out.violation(f"params:/{g}/datum", {"date": ds}, f"datum {p[g].get('datum')}")
        # --- stutter invariant
        if prev is not None and d not in allowed and not (d.month == 1 and d.day == 1):
            if prev[0] != dig:
                pp, _ = harness.fresh_env(prev[2])
                lines = RP.deep_diff({k: {kk: vv for kk, vv in v.items() if kk != "datum"} for k, v in p.items()},
                                     {k: {kk: vv for kk, vv in v.items() if kk != "datum"} for k, v in pp.items()})
                path = lines[0].split(":")[0] if lines else "?"
                out.violation(f"stutter:params{path}", {"date": ds, "previous": prev[2]}, f"environment changed between {prev[2]} and {ds} though no change date: {lines[:3]}")
            if prev[1] != ft:
                chg = sorted(set(map(tuple, ft)) ^ set(map(tuple, prev[1])))[:3]
                out.violation(f"stutter:functions:{chg[0][0] if chg else '?'}", {"date": ds, "previous": prev[2]}, f"function set changed: {chg}")
            out.count("stutter_pairs")
        prev = (dig, ft, ds)
    out.sample({"days": [days[0], days[-1]], "n": len(days)}, limit=1)
    return out.dump()


def task_uncached(dates):
    """Cross-check of the YAML seam: same environments without the parse cache."""
    out = Partial()
    for ds in dates:
        a, fa = harness.fresh_env(ds)
        harness.remove_yaml_seam()
        try:
            b, fb = harness.fresh_env(ds)
        finally:
            harness.install_yaml_seam()
        out.count("seam_crosschecks")
        if RP.digest(a, skip_datum=False) != RP.digest(b, skip_datum=False) or _fun_table(fa) != _fun_table(fb):
            out.violation("harness:yaml-seam-changes-environment", {"date": ds}, "cached and uncached YAML give different environments")
    return out.dump()

def _bump_in_place(x, depth=0):
    """What a user does for a reform: edit the returned dictionaries in place (every numeric leaf, every array)."""
    import numpy as np

    if isinstance(x, dict):
        for k in list(x):
            v = x[k]
            if isinstance(v, (dict, list)):
                _bump_in_place(v, depth + 1)
            elif isinstance(v, np.ndarray) and v.dtype.kind == "f":
                v *= 1.25
            elif isinstance(v, bool) or k == "datum":
                continue
            elif isinstance(v, float):
                x[k] = v * 1.25 + 1.0
            elif isinstance(v, int):
                x[k] = v + 7
    elif isinstance(x, list):
        for i, v in enumerate(x):
            if isinstance(v, (dict, list)):
                _bump_in_place(v, depth + 1)
            elif isinstance(v, float):
                x[i] = v * 1.25 + 1.0


def task_after_edit(dates):
    """The environment of a day is the law of that day whatever happened to environments handed out before: build one, edit every leaf
    of it in place, then build the environments of the same day, the next day and another year and compare them with the reference."""
    out = Partial()
    for ds in dates:
        d = datetime.date.fromisoformat(ds)
        try:
            p0, _ = harness.fresh_env(ds)
        except Exception as e:  # noqa: BLE001
            out.violation(f"set-up-raises:{type(e).__name__}", {"date": ds}, repr(e)[:200])
            continue
        _bump_in_place(p0)
        for d2 in (d, d + datetime.timedelta(days=1), d.replace(year=d.year - 1)):
            ds2 = d2.isoformat()
            out.state(("after-edit", ds, ds2))
            try:
                p, _ = harness.fresh_env(ds2)
            except Exception as e:  # noqa: BLE001
                out.violation(f"set-up-raises:{type(e).__name__}", {"date": ds2, "after_edit_of": ds}, repr(e)[:200])
                continue
            out.step()
            diffs = RP.deep_diff(p, RP.reference_params(d2))
            if diffs:
                groups = sorted({x.split(":")[0].split(".")[0].strip("[]'\"") for x in diffs})[:3]
                out.violation(f"environment-depends-on-earlier-edit:{groups[0] if groups else '?'}", {"date": ds2, "after_edit_of": ds, "differences": diffs[:5]},
                              f"after editing the environment of {ds} in place, set_up_policy_environment({ds2}) differs from the law in {len(diffs)} leaves, e.g. {diffs[:2]}")
    return out.dump()


def check_date_forms(rep):
    """The same day given as date, ISO string, string with time, pandas Timestamp with a time of day; 1 January as int year."""
    import pandas as pd

    for ds in ("2019-06-30", "2019-07-01", "2020-02-29", "2023-01-01", "2012-09-18"):
        d = datetime.date.fromisoformat(ds)
        base_p, base_f = harness.fresh_env(d)
        want = (RP.digest(base_p, skip_datum=False), _fun_table(base_f))
        forms = {"iso-string": ds, "string-with-time": ds + " 00:00:00", "string-noon": ds + " 12:30",
                 "string-with-utc-offset-after-midnight": ds + "T00:30:00+02:00", "string-with-utc-offset-before-midnight": ds + "T23:30:00-05:00"}  # documented forms: int, str, datetime.date
        if d.month == 1 and d.day == 1:
            forms["int-year"] = d.year
        for name, val in forms.items():
            rep.state(("date-form", ds, name))
            try:
                p, f = harness.fresh_env(val)
            except Exception as e:  # noqa: BLE001
                rep.violation(f"date-form:{name}:raises", {"date": ds, "form": name}, repr(e)[:200])
                continue
            rep.step()
            if (RP.digest(p, skip_datum=False), _fun_table(f)) != want:
                rep.violation(f"date-form:{name}:environment-differs", {"date": ds, "form": name}, f"set_up_policy_environment({val!r}) differs from set_up_policy_environment({d!r})")


def check_overlap_rejection(rep):
    """Small-scope: all ordered pairs of closed intervals over a 5-date alphabet."""
    from _gettsim import shared

    dates = ["2000-01-01", "2000-06-30", "2000-07-01", "2001-01-01", "2001-12-31"]
    ivs = [(a, b) for a in dates for b in dates if a <= b]
    n = 0
    for (a1, b1), (a2, b2) in itertools.product(ivs, ivs):
        key = f"__verif_probe_{n}"
        n += 1

        def f1():
            return 0

        def f2():
            return 0

        f1.__name__ = "verif_f1"
        f2.__name__ = "verif_f2"
        overlap = not (b1 < a2 or b2 < a1)
        try:
            shared.policy_info(start_date=a1, end_date=b1, name_in_dag=key)(f1)
            try:
                shared.policy_info(start_date=a2, end_date=b2, name_in_dag=key)(f2)
                raised = False
            except shared.ConflictingTimeDependentFunctionsError:
                raised = True
        finally:
            shared.TIME_DEPENDENT_FUNCTIONS.pop(key, None)
        rep.step()
        rep.state(("overlap", a1, b1, a2, b2))
        if raised != overlap:
            rep.violation(f"registry:overlap-{'accepted' if overlap else 'rejected'}",
                          {"first": [a1, b1], "second": [a2, b2]}, f"intervals {a1}..{b1} and {a2}..{b2}: overlap={overlap} raised={raised}")
    for a, b in itertools.product(dates, dates):
        if a > b:
            try:
                shared.policy_info(start_date=a, end_date=b, name_in_dag="__verif_bad")(lambda: 0)
                rep.violation("registry:start-after-end-accepted", {"start": a, "end": b}, "")
            except ValueError:
                pass
            finally:
                shared.TIME_DEPENDENT_FUNCTIONS.pop("__verif_bad", None)


def replay(case):
    if "after_edit_of" in case:
        part = task_after_edit([case["after_edit_of"]])
        return not part["violations"], "; ".join(x[2] for x in part["violations"][:2])
    ds = case["date"]
    d = datetime.date.fromisoformat(ds)
    p, f = harness.fresh_env(ds)
    diffs = RP.deep_diff(p, RP.reference_params(d))
    act = RR.active(d)
    fd = sorted(set(act) ^ set(f))
    ok = not diffs and not fd
    return ok, f"{ds}: parameter differences {diffs[:5]} function differences {fd[:5]}"


def day_set(tier):
    last = _last_day()
    if tier == "thorough":
        n = (last - START).days
        return [START + datetime.timedelta(days=i) for i in range(n + 1)]
    s = set()
    marks = set(popgen.change_dates()) | set(RR.bounds()) | allowed_change_days()
    for m in marks:
        for k in (-1, 0, 1):
            s.add(m + k * ONE)
    for y in range(START.year, last.year + 1):
        for mth in range(1, 13):
            s.add(datetime.date(y, mth, 1))
        s.add(datetime.date(y, 2, 28))
        s.add(datetime.date(y, 3, 1) - ONE)
        s.add(datetime.date(y, 12, 31))
        s.add(datetime.date(y, 1, 2))
    # every calendar day of the period the package documents as supported (2015 onwards)
    d = datetime.date(2015, 1, 1)
    while d <= last:
        s.add(d)
        d += ONE
    return sorted(d for d in s if START <= d <= last)


def chunks(days, size=48):
    """Maximal runs of consecutive days, cut into chunks that overlap by one (seed) day."""
    runs, cur = [], []
    for d in days:
        if cur and d - cur[-1] == ONE:
            cur.append(d)
        else:
            if cur:
                runs.append(cur)
            cur = [d]
    if cur:
        runs.append(cur)
    out = []
    for r in runs:
        # seed day: the day before the run (not itself checked against the reference)
        seq = [r[0] - ONE, *r]
        i = 1
        while i < len(seq):
            out.append([x.isoformat() for x in seq[i - 1 : i + size]])
            i += size
    return out


def run(tier):
    rep = Reporter("C07", tier)
    days = day_set(tier)
    tasks = harness.rotate(chunks(days))
    for part in harness.pmap(task_days, tasks, chunksize=1):
        rep.merge(part)
    cd = [d.isoformat() for d in popgen.change_dates() if d >= START]
    unc = harness.rotate(cd)[: (len(cd) if tier == "thorough" else 16)]
    for part in harness.pmap(task_uncached, [unc[i::16] for i in range(16) if unc[i::16]]):
        rep.merge(part)
    ed = harness.rotate(cd)[:: (1 if tier == "thorough" else 6)]
    for part in harness.pmap(task_after_edit, [ed[i::16] for i in range(16) if ed[i::16]]):
        rep.merge(part)
    check_overlap_rejection(rep)
    check_date_forms(rep)
    rep.bound = {"first_day": START.isoformat(), "last_day": _last_day().isoformat(), "days_checked": len(days),
                 "every_calendar_day": tier == "thorough", "every_calendar_day_from": START.isoformat() if tier == "thorough" else "2015-01-01", "groups": len(RP.groups())}
    rep.assumptions = [
        "reference resolver mc/ref/params.py (own reading of the parameter-file conventions; Fractions for schedules)",
        "registry reference = AST scan of @policy_info decorators in the rule modules",
        "days on which the environment may change: YAML keys, @policy_info bounds (+1 day after an end), key + 1 year for 'vorjahr' parameters, every 1 January",
    ]
    return rep.finish(
        "one state per calendar day (quick: every day from 2015-01-01 to the last key + 1 year, and before 2015 every change date +-1 day, every 1st of month, 28/29 Feb, 31 Dec, 2 Jan; thorough: every "
        "day 1980-01-01..last key + 1 year); real set_up_policy_environment(day) compared leaf by leaf with the reference resolver and "
        "the AST-scanned registry; stutter invariant between consecutive days; all 225 interval pairs for overlap rejection; "
        "distinct = distinct environment digests"
    )
