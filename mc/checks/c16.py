"""C16 - outputs are finite, non-negative and within statutory caps."""
from __future__ import annotations

import numpy as np

from mc import harness, popgen, sim
from mc.evidence import Partial, Reporter
from mc.popgen import person, retiree, worker
from _gettsim.config import DEFAULT_TARGETS

PRIORITY_CAPS = [
    ("arbeitsl_geld_2_m_bg", "arbeitsl_geld_2_vor_vorrang_m_bg"),
    ("wohngeld_m_wthh", "wohngeld_anspruchshöhe_m_wthh"),
    ("kinderzuschl_m_bg", "_kinderzuschl_nach_vermög_check_m_bg"),
]


def family_with_kids(year, k, single_parent=False, wage=2000.0):
    rows = [worker(10, 1, 42, year, wage, ges_pflegev_hat_kinder=k > 0, alleinerz=single_parent and k > 0)]
    if not single_parent:
        rows[0].update(p_id_einstandspartner=11, p_id_ehepartner=11, gemeinsam_veranlagt=True, steuerklasse=3)
        rows.append(worker(11, 1, 40, year, 450.0, p_id_einstandspartner=10, p_id_ehepartner=10, gemeinsam_veranlagt=True, steuerklasse=5, weiblich=True,
                           ges_pflegev_hat_kinder=k > 0))
    ages = [0, 1, 2, 4, 6, 9, 12, 14, 16, 17][:k]
    for j, a in enumerate(ages):
        rows.append(person(20 + j, 1, a, year, p_id_elternteil_1=10, p_id_elternteil_2=-1 if single_parent else 11, p_id_kindergeld_empf=10,
                           kind_unterh_anspr_m=300.0 if single_parent else 0.0))
    if k > 0 and ages[0] == 0:
        rows[0].update(elterngeld_claimed=True, monate_elterngeldbezug=1, elterngeld_nettoeinkommen_vorjahr_m=2500.0, elterngeld_zu_verst_eink_vorjahr_y_sn=40000.0)
    for r in rows:
        r.update(bruttokaltmiete_m_hh=900.0, wohnfläche_hh=60.0 + 10.0 * k, heizkosten_m_hh=120.0)
    return rows


def corner_cases(year):
    """(label, rows) of the dedicated corner stages."""
    for age in range(18, 101):
        if age < 63:
            yield f"single-age-{age}", [worker(10, 1, age, year, 1800.0)]
            yield f"single-age-{age}-no-income", [person(10, 1, age, year)]
        else:
            yield f"retiree-age-{age}", [retiree(10, 1, age, year, 25.0)]
            yield f"worker-age-{age}", [worker(10, 1, age, year, 1800.0, jahr_renteneintr=year + 1)]
    for age in range(0, 25):
        rows = [worker(10, 1, 45, year, 1500.0, alleinerz=True, ges_pflegev_hat_kinder=True),
                person(11, 1, age, year, p_id_elternteil_1=10, p_id_kindergeld_empf=10, in_ausbildung=age >= 6, kind=age < 18,
                       kind_unterh_anspr_m=300.0, kind_unterh_erhalt_m=150.0)]
        yield f"child-age-{age}", rows
    for k in range(0, 11):
        yield f"couple-{k}-children", family_with_kids(year, k)
        yield f"single-parent-{k}-children", family_with_kids(year, k, single_parent=True, wage=1200.0)
        yield f"couple-{k}-children-no-income", family_with_kids(year, k, wage=0.0)
    for wage in (0.0, 1e5, 1e6, 1e7):
        for wealth in (0.0, 1e6, 1e8):
            r = worker(10, 1, 40, year, wage, vermögen_bedürft=wealth, kapitaleink_brutto_m=wage / 10, eink_vermietung_m=-5000.0 if wealth else 0.0,
                       elterngeld_nettoeinkommen_vorjahr_m=wage, bruttolohn_vorj_m=wage)
            yield f"wage-{wage:g}-wealth-{wealth:g}", [r]
            s = person(10, 1, 50, year, selbstständig=True, eink_selbst_m=wage, vermögen_bedürft=wealth, eink_vermietung_m=-500.0)
            yield f"self-employed-{wage:g}-wealth-{wealth:g}", [s]
            yield f"rich-pensioner-{wage:g}-{wealth:g}", [retiree(10, 1, 70, year, 80.0, priv_rente_m=wage / 10, vermögen_bedürft=wealth, kapitaleink_brutto_m=wage)]
    # parental leave with a sibling under three (sibling bonus) and with twins, previous net income across and far above the assessment maximum
    for prev in (300.0, 1000.0, 1240.0, 2770.0, 4000.0, 12000.0, 1e5):
        for kids, label in ((2, "sibling-under-3"), (3, "two-siblings"), (1, "only-child")):
            rows = family_with_kids(year, kids, wage=0.0)
            rows[0].update(elterngeld_nettoeinkommen_vorjahr_m=prev, elterngeld_zu_verst_eink_vorjahr_y_sn=min(prev * 14, 150000.0))
            rows[1].update(elterngeld_zu_verst_eink_vorjahr_y_sn=min(prev * 14, 150000.0))
            yield f"elterngeld-{label}-prev-{prev:g}", rows
        rows = family_with_kids(year, 2, wage=0.0)
        rows[3].update(alter=0, geburtsjahr=year)  # twins
        rows[0].update(elterngeld_nettoeinkommen_vorjahr_m=prev, elterngeld_zu_verst_eink_vorjahr_y_sn=min(prev * 14, 150000.0))
        rows[1].update(elterngeld_zu_verst_eink_vorjahr_y_sn=min(prev * 14, 150000.0))
        yield f"elterngeld-twins-prev-{prev:g}", rows
    # unemployed with very high / zero previous wage, parental leave with huge previous income
    for prev in (0.0, 450.0, 3000.0, 1e5):
        yield f"alg1-prev-{prev:g}", [worker(10, 1, 45, year, 0.0, arbeitssuchend=True, bruttolohn_vorj_m=prev, anwartschaftszeit=True, sozialv_pflicht_5j=60.0,
                                             arbeitsstunden_w=0.0)]
        rows = family_with_kids(year, 1, wage=0.0)
        rows[0].update(elterngeld_nettoeinkommen_vorjahr_m=prev, elterngeld_zu_verst_eink_vorjahr_y_sn=prev * 12)
        rows[1].update(elterngeld_zu_verst_eink_vorjahr_y_sn=prev * 12)
        yield f"elterngeld-prev-{prev:g}", rows


def judge(out, df, r, p, case):
    # ---- finiteness of every numeric node
    for c in r.columns:
        v = r[c].to_numpy()
        if v.dtype.kind == "f":
            bad = ~np.isfinite(v)
            if bad.any():
                i = int(np.argmax(bad))
                out.violation(f"non-finite:{c}", {**case, "column": c, "row": i, "value": repr(v[i])}, f"{c} is {v[i]!r} in row {i} ({case['label']}, {case['date']})")
    # ---- default targets non-negative
    for c in DEFAULT_TARGETS:
        if c in r.columns:
            v = r[c].to_numpy().astype(float)
            if (v < 0).any():
                i = int(np.argmax(v < 0))
                out.violation(f"negative:{c}", {**case, "column": c, "row": i, "value": float(v[i])}, f"{c} = {v[i]} in row {i} ({case['label']}, {case['date']})")
    # ---- priority caps
    for post, pre in PRIORITY_CAPS:
        if post in r.columns and pre in r.columns:
            a, b = r[post].to_numpy().astype(float), r[pre].to_numpy().astype(float)
            bad = a > b + 1e-9
            if bad.any():
                i = int(np.argmax(bad))
                out.violation(f"cap:{post}>{pre}", {**case, "row": i, "values": [float(a[i]), float(b[i])]}, f"{post} {a[i]} exceeds {pre} {b[i]}")
    # ---- contribution caps: rate x ceiling of the date
    sv = p["sozialv_beitr"]
    bs = sv["beitr_satz"]
    crv = r["_ges_rentenv_beitr_bemess_grenze_m"].to_numpy().astype(float) if "_ges_rentenv_beitr_bemess_grenze_m" in r.columns else None
    ckv = r["_ges_krankenv_beitr_bemess_grenze_m"].to_numpy().astype(float) if "_ges_krankenv_beitr_bemess_grenze_m" in r.columns else None
    eps = 1e-6
    if crv is not None:
        for col, rate in (("ges_rentenv_beitr_arbeitnehmer_m", bs["ges_rentenv"]), ("arbeitsl_v_beitr_arbeitnehmer_m", bs["arbeitsl_v"])):
            if col in r.columns:
                v = r[col].to_numpy().astype(float)
                bad = v > rate * crv + eps
                if bad.any():
                    i = int(np.argmax(bad))
                    out.violation(f"cap:{col}>rate*ceiling", {**case, "row": i, "value": float(v[i]), "cap": float(rate * crv[i])}, f"{col} {v[i]} > {rate} x {crv[i]}")
    if ckv is not None:
        kvr = bs["ges_krankenv"]
        full_kv = kvr.get("allgemein", 0) + kvr.get("mean_zusatzbeitrag", 0) + kvr.get("sonderbeitrag", 0)
        pvr = bs["ges_pflegev"]
        full_pv = 2 * pvr.get("standard", 0) + pvr.get("zusatz_kinderlos", 0)
        for col, full in (("ges_krankenv_beitr_arbeitnehmer_m", full_kv), ("ges_pflegev_beitr_arbeitnehmer_m", full_pv)):
            if col in r.columns:
                v = r[col].to_numpy().astype(float)
                # wage (or self-employment income) and pension are each assessed up to the ceiling
                bad = v > 2 * full * ckv + eps
                if bad.any():
                    i = int(np.argmax(bad))
                    out.violation(f"cap:{col}>2*full-rate*ceiling", {**case, "row": i, "value": float(v[i]), "cap": float(2 * full * ckv[i])}, f"{col} {v[i]} > 2 x {full} x {ckv[i]}")
                # tight cap for plain employees
                if "ges_krankenv_beitr_satz_arbeitnehmer" in r.columns and col.startswith("ges_krankenv"):
                    plain = ~df["selbstständig"].to_numpy() & ~df["rentner"].to_numpy() & (df["priv_rente_m"].to_numpy() == 0)
                    cap = r["ges_krankenv_beitr_satz_arbeitnehmer"].to_numpy().astype(float) * ckv
                    bad = plain & (v > cap + eps)
                    if bad.any():
                        i = int(np.argmax(bad))
                        out.violation(f"cap:{col}>employee-rate*ceiling", {**case, "row": i, "value": float(v[i]), "cap": float(cap[i])}, f"{col} {v[i]} > {cap[i]}")
    # ---- Elterngeld <= maximum plus bonuses (sibling bonus: the larger of the percentage and the minimum; one multiple-birth bonus per further
    #      child born on the same day as the youngest child of the household)
    if "elterngeld_m" in r.columns:
        eg = p["elterngeld"]
        hb = eg["höchstbetrag"]
        sib = max(hb * eg.get("geschwisterbonus_aufschlag", 0.1), eg.get("geschwisterbonus_minimum", 75.0))
        v = r["elterngeld_m"].to_numpy().astype(float)
        born = list(zip(df["hh_id"].tolist(), df["geburtsjahr"].tolist(), df["geburtsmonat"].tolist(), df["geburtstag"].tolist(), df["alter"].tolist()))
        for i in range(len(df)):
            if v[i] <= hb + eps:
                continue
            babies = [b for b in born if b[0] == born[i][0] and b[4] <= 3]
            multiples = max([sum(1 for c in babies if c[1:4] == b[1:4]) for b in babies], default=1)
            cap = hb + sib + eg.get("mehrlingbonus", 300.0) * max(multiples - 1, 0)
            if v[i] > cap + eps:
                out.violation(f"cap:elterngeld_m>maximum+bonuses:excess={v[i] - cap:.2f}", {**case, "row": i, "value": float(v[i]), "cap": float(cap)},
                              f"elterngeld_m {v[i]} > maximum {hb} + sibling bonus {sib} + multiple-birth bonuses ({multiples - 1})")
                break
    # ---- Kindergeld <= claims x highest rate
    if "kindergeld_m" in r.columns and "kindergeld_anz_ansprüche" in r.columns:
        kg = p["kindergeld"]["kindergeld"]
        top = max(kg.values()) if isinstance(kg, dict) else kg
        v = r["kindergeld_m"].to_numpy().astype(float)
        c = r["kindergeld_anz_ansprüche"].to_numpy().astype(float)
        if (v > c * top + eps).any():
            i = int(np.argmax(v > c * top + eps))
            out.violation("cap:kindergeld_m>claims*top-rate", {**case, "row": i, "value": float(v[i]), "claims": float(c[i])}, f"kindergeld_m {v[i]} > {c[i]} x {top}")


def task(arg):
    date_iso, items = arg
    out = Partial()
    p, _ = harness.env(date_iso)
    for label, rows in items:
        df = popgen.frame(rows)
        case = {"date": date_iso, "label": label, "rows": rows}
        try:
            r = sim.sim_all(df, date_iso)
        except Exception as e:  # noqa: BLE001
            if sim.known_crash(date_iso, e):
                out.count("sims_skipped_known_C08_crash")
            else:
                out.violation(f"simulation-raises:{type(e).__name__}:{str(e)[:40]}", case, repr(e)[:300])
            continue
        out.step()
        out.state((date_iso, label))
        judge(out, df, r, p, case)
        out.outcome(tuple(bool((r[c] > 0).any()) for c in DEFAULT_TARGETS if c in r.columns))
    out.sample({"date": date_iso, "cases": [l for l, _ in items[:3]]}, limit=1)
    return out.dump()

def task_lattice(arg):
    """One single-person household per wage on a 5 EUR lattice from 0 to above the highest assessment ceiling (plus every boundary of the
    contribution rules +- 0.01 / 1 EUR / 1 ulp), for 0-5 children under 25, both regions and two ages: all nodes, same judgement."""
    from mc.checks import c19

    date_iso, ost, kids, age, step = arg
    out = Partial()
    year = int(date_iso[:4])
    p, f = harness.env(date_iso)
    cc = "ges_pflegev_anz_kinder_bis_24" in f
    if kids > 1 and not cc:
        return out.dump()
    label = f"wage-lattice-{'east' if ost else 'west'}-{kids}-children-age-{age}"
    case = {"date": date_iso, "label": label, "lattice": {"ost": ost, "kids": kids, "age": age, "step": step}}
    try:
        pre = sim.sim(c19.build([1000.0], year, ost, kids, cc, age), date_iso, targets=["minijob_grenze"])
        wages, _b = c19.lattice(p, ost, step, float(pre["minijob_grenze"].iloc[0]))
        df = c19.build(wages, year, ost, kids, cc, age)
        r = sim.sim_all(df, date_iso)
    except Exception as e:  # noqa: BLE001
        if sim.known_crash(date_iso, e):
            out.count("sims_skipped_known_C08_crash")
        else:
            out.violation(f"simulation-raises:{type(e).__name__}:{str(e)[:40]}", case, repr(e)[:300])
        return out.dump()
    out.step()
    out.state((date_iso, label))
    out.add_states(len(wages))
    judge(out, df, r, p, case)
    # every contribution an employee or employer pays, not only the default targets; the Midijob helper nodes only where they apply
    zone = r["in_gleitzone"].to_numpy().astype(bool) if "in_gleitzone" in r.columns else np.zeros(len(df), dtype=bool)
    for c in r.columns:
        final = not c.startswith("_") and c.endswith(("_beitr_arbeitnehmer_m", "_beitr_arbeitgeber_m"))
        midi = "_midijob_" in c and c.endswith("_m")
        if not (final or midi):
            continue
        v = r[c].to_numpy().astype(float)
        bad = (v < -1e-9) & (zone if midi else True)
        if bad.any():
            i = int(np.argmax(bad))
            out.violation(f"negative:{c}", {**case, "column": c, "row": i, "wage": float(wages[i]), "value": float(v[i])},
                          f"{c} = {v[i]} at a wage of {wages[i]} ({label}, {date_iso})")
    out.sample({"date": date_iso, "label": label, "rows": len(wages)}, limit=1)
    return out.dump()


def replay(case):
    if "lattice" in case:
        la = case["lattice"]
        part = task_lattice((case["date"], la["ost"], la["kids"], la["age"], la["step"]))
        v = part["violations"]
        return not v, "; ".join(x[2] for x in v[:3])
    df = popgen.frame(case["rows"])
    p, _ = harness.env(case["date"])
    r = sim.sim_all(df, case["date"])
    pp = Partial()
    judge(pp, df, r, p, {"date": case["date"], "label": case.get("label", "?")})
    v = pp.d["violations"]
    return not v, "; ".join(x[2] for x in v[:3])


def run(tier):
    rep = Reporter("C16", tier)
    thorough = tier == "thorough"
    if thorough:
        dates = sorted({d.isoformat() for cls in popgen.d15_classes() for d in cls})
    else:
        cls = popgen.d15_classes()
        pick = [cls[0], cls[len(cls) // 3], cls[2 * len(cls) // 3], cls[-1]]
        dates = sorted({d.isoformat() for c in pick for d in c})
    tasks = []
    for d in dates:
        year = int(d[:4])
        items = list(corner_cases(year))
        for name in popgen.LIBRARY:
            rows = popgen.library_rows(name, year)
            items.append((name, rows))
        for k in range(0, len(items), 20):
            tasks.append((d, items[k : k + 20]))
    dev_dates = dates[1::8] if thorough else dates[2:3]
    for d in dev_dates:
        year = int(d[:4])
        for name in popgen.LIBRARY:
            rows = popgen.library_rows(name, year)
            items = [(f"{name}[{i}].{col}={v}", new) for i, col, v, new in popgen.deviations(rows, year, reduced=not thorough, max_alts=None if thorough else 1)]
            for k in range(0, len(items), 25):
                tasks.append((d, items[k : k + 25]))
    for part in harness.pmap(task, harness.rotate(tasks)):
        rep.merge(part)
    lat = [(d, ost, kids, age, 1.0 if thorough else 5.0) for d in (dates[::3] if thorough else dates[-3:]) for ost in (False, True) for kids in (0, 1, 2, 3, 5)
           for age in (22, 40)]
    for part in harness.pmap(task_lattice, harness.rotate(lat)):
        rep.merge(part)
    rep.bound = {"wage_lattice": {"step": 1.0 if thorough else 5.0, "children": [0, 1, 2, 3, 5], "ages": [22, 40], "dates": sorted({x[0] for x in lat})},"dates": dates, "deviation_dates": dev_dates, "ages": "0-100", "children": "0-10", "incomes": "0 .. 1e7", "wealth": "0 .. 1e8"}
    rep.assumptions = ["caps are read from the parameters of the date: employee pension/unemployment contribution <= rate x ceiling; health/care "
                       "contribution <= 2 x full rate x ceiling (wage or self-employment income and pension are assessed separately) and <= employee "
                       "rate x ceiling for plain employees; Elterngeld <= maximum + sibling bonus (larger of percentage and minimum) + one multiple-birth bonus per further child born the same day"]
    return rep.finish(
        "corner stages (every age 18-100 as worker/retiree/no income, children aged 0-24, 0-10 children for couples and single parents, incomes "
        "0..1e7, wealth 0..1e8, negative rental income, unemployment / parental leave with extreme previous incomes) + library households + k=1 "
        "deviations, at the first and last day of change-date classes, all nodes computed; oracle: all float nodes finite, default targets "
        ">= 0, post-priority <= pre-priority benefits, contributions within rate x ceiling, Elterngeld and Kindergeld within their caps"
    )
