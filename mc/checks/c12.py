"""C12 - derived units partition persons as the unit definitions prescribe.

Exhaustive enumeration of labelled pointer structures (roles x households x partner
matchings x parent pointers), each pushed through the real grouping functions in all
row orders and compared with the union-find reference of mc/ref/units.py.
"""
from __future__ import annotations

import itertools

import numpy as np

from mc import harness, popgen
from mc.evidence import Partial, Reporter
from mc.ref import units as ref
from _gettsim import groupings as G

PID = [7, 0, 40, 3, 12, 5]  # sparse, unsorted person labels by position
HHID = [5, 2]


def _perm_arrays(perm, ages, hh, partner, par):
    mp = lambda v: -1 if v < 0 else PID[v]  # noqa: E731
    p_id = np.array([PID[i] for i in perm])
    hh_id = np.array([HHID[hh[i]] for i in perm])
    alter = np.array([ages[i] for i in perm])
    part = np.array([mp(partner[i]) for i in perm])
    e1 = np.array([mp(par[i][0]) for i in perm])
    e2 = np.array([mp(par[i][1]) for i in perm])
    return p_id, hh_id, alter, part, e1, e2


def _part(ids, perm):
    d = {}
    for pos, g in enumerate(ids):
        d.setdefault(int(g), set()).add(perm[pos])
    return frozenset(frozenset(v) for v in d.values())


def _case(rs, ages, hh, partner, par, perm, extra=None):
    c = {"roles": "".join(rs), "ages": list(ages), "hh": list(hh), "partner": list(partner), "parents": [list(p) for p in par],
         "row_order": list(perm)}
    if extra:
        c.update(extra)
    return c


def _fmt(p):
    return sorted(sorted(b) for b in p)


def task_fg(arg):
    rs, all_orders = arg
    n = len(rs)
    out = Partial()
    perms = list(itertools.permutations(range(n))) if all_orders else [tuple(range(n))]
    hhpart_cache = {}
    for rs_, ages, hh, partner, par in popgen.structures_for_roles(rs):
        if not popgen.structure_valid(ages, hh, partner, par, n):
            continue
        out.add_states(1)
        want = ref.family_units(ages, hh, partner, par)
        hhp = hhpart_cache.get(hh)
        if hhp is None:
            hhp = hhpart_cache[hh] = ref.by_key(hh)
        kids = sorted({c for c, _ in ref.fg_children(ages, hh, par)})
        outcome = (len(want), len(kids))
        out.outcome(outcome)
        for perm in perms:
            arrs = _perm_arrays(perm, ages, hh, partner, par)
            try:
                fg = G.fg_id_numpy(*arrs)
            except Exception as e:  # noqa: BLE001
                out.violation("fg_id:exception:" + type(e).__name__, _case(rs, ages, hh, partner, par, perm), repr(e))
                continue
            out.step()
            got = _part(fg, perm)
            if got != want:
                out.violation("fg_id:partition-differs-from-definition", _case(rs, ages, hh, partner, par, perm),
                              f"fg_id gives {_fmt(got)}, definition gives {_fmt(want)}")
                continue
            if not ref.refines(got, hhp):
                out.violation("fg_id:not-within-household", _case(rs, ages, hh, partner, par, perm), f"{_fmt(got)}")
            # Bedarfsgemeinschaften: every subset of fg-children covering their own needs
            for r in range(len(kids) + 1):
                for own in itertools.combinations(kids, r):
                    eig = [i in own for i in range(n)]
                    try:
                        bg = G.bg_id_numpy(np.asarray(fg), arrs[2], np.array([eig[i] for i in perm]))
                    except Exception as e:  # noqa: BLE001
                        out.violation("bg_id:exception:" + type(e).__name__, _case(rs, ages, hh, partner, par, perm, {"eigenbedarf": eig}), repr(e))
                        continue
                    out.step()
                    gotb = _part(bg, perm)
                    wantb = ref.needs_units(ages, hh, partner, par, eig)
                    if gotb != wantb:
                        out.violation("bg_id:partition-differs-from-definition",
                                      _case(rs, ages, hh, partner, par, perm, {"eigenbedarf": eig}),
                                      f"bg_id gives {_fmt(gotb)}, definition gives {_fmt(wantb)}")
                    elif not ref.refines(gotb, got):
                        out.violation("bg_id:not-within-fg", _case(rs, ages, hh, partner, par, perm, {"eigenbedarf": eig}), "")
    out.sample({"roles": "".join(rs), "orders": len(perms)}, limit=1)
    return out.dump()


def _matchings(n):
    idx = list(range(n))
    cand = list(itertools.combinations(idx, 2))
    for m in range(0, n // 2 + 1):
        for match in itertools.combinations(cand, m):
            used = [x for p in match for x in p]
            if len(set(used)) == len(used):
                yield match


def task_couples(n):
    """ehe_id / eg_id / sn_id over all matchings, joint-assessment flags and row orders."""
    out = Partial()
    perms = list(itertools.permutations(range(n)))
    for match in _matchings(n):
        ptr = [-1] * n
        for i, j in match:
            ptr[i], ptr[j] = j, i
        want = ref.couples(ptr)
        for gv_couples in itertools.product([False, True], repeat=len(match)):
            singles = [i for i in range(n) if ptr[i] < 0]
            for gv_single in ([False] * len(singles), [True] * len(singles)):
                gv = [False] * n
                for (i, j), g in zip(match, gv_couples):
                    gv[i] = gv[j] = g
                for i, g in zip(singles, gv_single):
                    gv[i] = g
                out.add_states(1)
                want_sn = ref.tax_units(ptr, gv)
                out.outcome((len(want), len(want_sn)))
                for perm in perms:
                    p_id = np.array([PID[i] for i in perm])
                    pp = np.array([-1 if ptr[i] < 0 else PID[ptr[i]] for i in perm])
                    gva = np.array([gv[i] for i in perm])
                    case = {"n": n, "pointer": ptr, "gemeinsam_veranlagt": gv, "row_order": list(perm)}
                    for name, fn, w, args in (
                        ("ehe_id", G.ehe_id_numpy, want, (p_id, pp)),
                        ("eg_id", G.eg_id_numpy, want, (p_id, pp)),
                        ("sn_id", G.sn_id_numpy, want_sn, (p_id, pp, gva)),
                    ):
                        try:
                            ids = fn(*args)
                        except Exception as e:  # noqa: BLE001
                            out.violation(f"{name}:exception:{type(e).__name__}", case, repr(e))
                            continue
                        out.step()
                        got = _part(ids, perm)
                        if got != w:
                            out.violation(f"{name}:partition-differs-from-definition", case, f"{name} gives {_fmt(got)}, definition {_fmt(w)}")
                        if name == "sn_id" and not ref.refines(got, want):
                            out.violation("sn_id:not-within-marriage", case, "")
    out.sample({"couples_n": n, "orders": len(perms)}, limit=1)
    return out.dump()

def _blocks(max_n):
    """Every valid labelled structure with up to `max_n` persons, each with all / none of its fg-children covering their own needs."""
    out = []
    for n in range(1, max_n + 1):
        for rs in itertools.product("KYZAR" if n < 3 else "KYA", repeat=n):
            for _rs, ages, hh, partner, par in popgen.structures_for_roles(rs):
                if not popgen.structure_valid(ages, hh, partner, par, n):
                    continue
                kids = sorted({c for c, _ in ref.fg_children(ages, hh, par)})
                for own in ((), tuple(kids)) if kids else ((),):
                    out.append((ages, hh, partner, par, [i in own for i in range(n)]))
    return out


def task_many_units(arg):
    """Hundreds of small structures side by side in ONE table: the units of the table are the disjoint union of the units of the blocks.
    Reaches what no single household can: more than 99 units, more than 99 self-sufficient children, ids of neighbouring households."""
    max_n, order, hh_scheme = arg
    out = Partial()
    blocks = _blocks(max_n)
    rows = []  # (block, local index)
    for b, (ages, _hh, _pt, _par, _eig) in enumerate(blocks):
        rows += [(b, i) for i in range(len(ages))]
    n = len(rows)
    if order == "reversed":
        rows = rows[::-1]
    elif order == "stride":  # households are not contiguous
        step = 389  # prime, does not divide any table length used here
        assert n % step != 0
        rows = [rows[(k * step) % n] for k in range(n)]
    elif order == "children-first":
        rows = sorted(rows, key=lambda r: blocks[r[0]][0][r[1]])
    pid = lambda b, i: b * 10 + [7, 0, 4][i]  # noqa: E731
    hhid = {"consecutive": lambda b, h: 2 * b + h, "sparse": lambda b, h: 7 * b + 3 * h + 1, "hundreds": lambda b, h: 100 * b + h}[hh_scheme]
    mp = lambda b, x: -1 if x < 0 else pid(b, x)  # noqa: E731
    p_id = np.array([pid(b, i) for b, i in rows])
    hh_id = np.array([hhid(b, blocks[b][1][i]) for b, i in rows])
    alter = np.array([blocks[b][0][i] for b, i in rows])
    part = np.array([mp(b, blocks[b][2][i]) for b, i in rows])
    e1 = np.array([mp(b, blocks[b][3][i][0]) for b, i in rows])
    e2 = np.array([mp(b, blocks[b][3][i][1]) for b, i in rows])
    eig = np.array([blocks[b][4][i] for b, i in rows])
    case = {"blocks": len(blocks), "rows": n, "max_persons_per_block": max_n, "row_order": order, "hh_ids": hh_scheme,
            "self_sufficient_children": int(eig.sum())}
    out.state((max_n, order, hh_scheme))
    out.add_states(len(blocks))

    def union(fn):
        w = set()
        for b, blk in enumerate(blocks):
            for unit in fn(*blk):
                w.add(frozenset((b, i) for i in unit))
        return frozenset(w)

    def got_part(ids):
        d = {}
        for (b, i), g in zip(rows, ids):
            d.setdefault(int(g), set()).add((b, i))
        return frozenset(frozenset(v) for v in d.values())

    def report(name, got, want):
        if got == want:
            return True
        merged = [sorted(u) for u in got if len({b for b, _ in u}) > 1][:3]
        bad = sorted(sorted(u) for u in (got ^ want))[:4]
        out.violation(f"{name}:many-units:partition-differs-from-definition", case,
                      f"{name} in a table of {len(blocks)} structures / {n} rows ({order}, {hh_scheme} hh ids): units spanning several structures {merged}; differing units (block, person) {bad}")
        return False

    try:
        fg = G.fg_id_numpy(p_id, hh_id, alter, part, e1, e2)
        out.step()
        ok = report("fg_id", got_part(fg), union(lambda a, h, pt, pr, e: ref.family_units(a, h, pt, pr)))
        bg = G.bg_id_numpy(np.asarray(fg), alter, eig)
        out.step()
        gb = got_part(bg)
        ok = report("bg_id", gb, union(lambda a, h, pt, pr, e: ref.needs_units(a, h, pt, pr, e))) and ok
        if ok and not ref.refines(gb, got_part(fg)):
            out.violation("bg_id:many-units:not-within-fg", case, "")
        wc = union(lambda a, h, pt, pr, e: ref.couples(list(pt)))
        for name, fn in (("eg_id", G.eg_id_numpy), ("ehe_id", G.ehe_id_numpy)):
            ids = fn(p_id, part)
            out.step()
            report(name, got_part(ids), wc)
        for gv_all in (False, True):
            gv = np.array([gv_all and x >= 0 for x in part])
            ids = G.sn_id_numpy(p_id, part, gv)
            out.step()
            report("sn_id", got_part(ids), union(lambda a, h, pt, pr, e: ref.tax_units(list(pt), [gv_all and x >= 0 for x in pt])))
        # housing units: a needs unit with priority for housing benefit splits off its household's other needs units
        for pattern in ("none", "own-bg-only", "all"):
            flag = {"none": np.zeros(n, dtype=bool), "all": np.ones(n, dtype=bool), "own-bg-only": eig.copy()}[pattern]
            ids = G.wthh_id_numpy(hh_id, flag, np.zeros(n, dtype=bool))
            out.step()
            want = ref.housing_units([int(x) for x in hh_id], [bool(x) for x in flag])
            got = ref.by_key([int(x) for x in ids])
            if got != want:
                out.violation("wthh_id:many-units:partition-differs-from-definition", {**case, "flags": pattern}, f"{len(got)} units, definition {len(want)}")
    except Exception as e:  # noqa: BLE001
        out.violation("many-units:exception:" + type(e).__name__, case, repr(e)[:300])
    out.outcome(("many-units", n, int(eig.sum())))
    out.sample(case, limit=1)
    return out.dump()


def task_wthh(n):
    out = Partial()
    for hh in itertools.product([3, 0, 101, 1], repeat=n):
        for f1 in itertools.product([False, True], repeat=n):
            for f2 in itertools.product([False, True], repeat=n):
                out.add_states(1)
                case = {"hh_id": list(hh), "wohngeld_vorrang_bg": list(f1), "wohngeld_kinderzuschl_vorrang_bg": list(f2)}
                try:
                    ids = G.wthh_id_numpy(np.array(hh), np.array(f1), np.array(f2))
                except Exception as e:  # noqa: BLE001
                    out.violation("wthh_id:exception:" + type(e).__name__, case, repr(e))
                    continue
                out.step()
                got = ref.by_key([int(x) for x in ids])
                want = ref.housing_units(hh, [a or b for a, b in zip(f1, f2)])
                out.outcome(len(want))
                if got != want:
                    out.violation("wthh_id:partition-differs-from-definition", case, f"{_fmt(got)} vs {_fmt(want)}")
    out.sample({"wthh_n": n}, limit=1)
    return out.dump()


# ---------------------------------------------------------------- API level
ID_TARGETS = ["fg_id", "bg_id", "eg_id", "ehe_id", "sn_id"]


def _api_frame(perm, ages, hh, partner, par, married, eig):
    import pandas as pd

    p_id, hh_id, alter, part, e1, e2 = _perm_arrays(perm, ages, hh, partner, par)
    ehe = part if married else np.full(len(perm), -1)
    return pd.DataFrame({
        "p_id": p_id, "hh_id": hh_id, "alter": alter, "p_id_einstandspartner": part, "p_id_ehepartner": ehe,
        "p_id_elternteil_1": e1, "p_id_elternteil_2": e2,
        "gemeinsam_veranlagt": np.array([married and partner[i] >= 0 for i in perm]),
        "eigenbedarf_gedeckt": np.array([eig[i] for i in perm]),
    })


def task_api(arg):
    from mc import sim

    rs, date_iso = arg
    n = len(rs)
    out = Partial()
    env = harness.env(date_iso)
    perms = [tuple(range(n)), tuple(reversed(range(n)))] if n > 1 else [(0,)]
    for rs_, ages, hh, partner, par in popgen.structures_for_roles(rs):
        if not popgen.structure_valid(ages, hh, partner, par, n):
            continue
        kids = sorted({c for c, _ in ref.fg_children(ages, hh, par)})
        for married in ([False, True] if any(p >= 0 for p in partner) else [False]):
            eig = [i in kids[:1] for i in range(n)]
            out.add_states(1)
            for perm in perms:
                df = _api_frame(perm, ages, hh, partner, par, married, eig)
                case = _case(rs, ages, hh, partner, par, perm, {"married": married, "eigenbedarf": eig, "date": date_iso, "api": True})
                try:
                    r = sim.sim(df, date_iso, targets=ID_TARGETS, env=env)
                except Exception as e:  # noqa: BLE001
                    out.violation("api:exception:" + type(e).__name__, case, repr(e))
                    continue
                out.step()
                ptr_e = partner if married else [-1] * n
                wants = {
                    "fg_id": ref.family_units(ages, hh, partner, par),
                    "bg_id": ref.needs_units(ages, hh, partner, par, eig),
                    "eg_id": ref.couples(partner),
                    "ehe_id": ref.couples(ptr_e),
                    "sn_id": ref.tax_units(ptr_e, [married and partner[i] >= 0 for i in range(n)]),
                }
                hhp = ref.by_key(hh)
                for name, want in wants.items():
                    got = _part(r[name].to_numpy(), perm)
                    if got != want:
                        out.violation(f"api:{name}:partition-differs-from-definition", case, f"{_fmt(got)} vs {_fmt(want)}")
                    elif name in ("fg_id", "bg_id") and not ref.refines(got, hhp):
                        out.violation(f"api:{name}:collides-across-households", case, f"{_fmt(got)}")
                out.outcome(tuple(len(w) for w in wants.values()))
    out.sample({"api_roles": "".join(rs), "date": date_iso}, limit=1)
    return out.dump()


def replay(case):
    if "blocks" in case:
        part = task_many_units((case["max_persons_per_block"], case["row_order"], case["hh_ids"]))
        return not part["violations"], "; ".join(v[2] for v in part["violations"][:2])
    n = len(case["ages"])
    perm = tuple(case["row_order"])
    if "ages" in case and not case.get("api"):
        ages, hh, partner, par = case["ages"], case["hh"], case["partner"], [tuple(p) for p in case["parents"]]
        arrs = _perm_arrays(perm, ages, hh, partner, par)
        fg = G.fg_id_numpy(*arrs)
        got = _part(fg, perm)
        want = ref.family_units(ages, hh, partner, par)
        msg = f"fg_id {_fmt(got)} definition {_fmt(want)}"
        ok = got == want
        if "eigenbedarf" in case and ok:
            eig = case["eigenbedarf"]
            bg = G.bg_id_numpy(np.asarray(fg), arrs[2], np.array([eig[i] for i in perm]))
            gotb = _part(bg, perm)
            wantb = ref.needs_units(ages, hh, partner, par, eig)
            ok = gotb == wantb
            msg += f"; bg_id {_fmt(gotb)} definition {_fmt(wantb)}"
        return ok, msg
    return True, "replay of this case kind not implemented (re-run the check)"


def run(tier):
    rep = Reporter("C12", tier)
    thorough = tier == "thorough"
    roles = "KkYAR"
    tasks = []
    for n in (1, 2, 3):
        tasks += [(rs, True) for rs in itertools.product(roles + "Z", repeat=n)]
    tasks += [(rs, thorough) for rs in itertools.product(roles, repeat=4)]
    n5_roles = "KYZA"
    if thorough:
        tasks += [(rs, False) for rs in itertools.product(n5_roles, repeat=5)]
    tasks = harness.rotate(sorted(tasks, key=lambda t: -len(t[0])))
    for part in harness.pmap(task_fg, tasks, chunksize=1):
        rep.merge(part)
    for part in harness.pmap(task_couples, [1, 2, 3, 4, 5] + ([6] if thorough else [])):
        rep.merge(part)
    for part in harness.pmap(task_wthh, [1, 2, 3] + ([4] if thorough else [])):
        rep.merge(part)
    mu = [(m, o, h) for m in (2, 3) for o in ("identity", "reversed", "stride", "children-first")
          for h in ("consecutive", "sparse", "hundreds")]
    for part in harness.pmap(task_many_units, mu):
        rep.merge(part)
    dates = ["2023-01-01"] if not thorough else ["2015-01-01", "2019-07-01", "2023-01-01", "2025-01-01"]
    api_tasks = []
    for d in dates:
        for n in (1, 2, 3):
            api_tasks += [(rs, d) for rs in itertools.product("KYZA" if n == 3 else roles + "Z", repeat=n)]
    for part in harness.pmap(task_api, harness.rotate(api_tasks), chunksize=1):
        rep.merge(part)
    rep.bound = {
        "persons_all_row_orders": 4 if thorough else 3,
        "persons_identity_order_all_labelled_structures": 5 if thorough else 4,
        "roles": roles, "roles_up_to_3_persons": roles + "Z (ages 10, 3, 24, 25, 40, 70)", "roles_n5": n5_roles if thorough else None, "households": 2,
        "couples_n": 6 if thorough else 5, "api_level_persons": 3, "many_units_tables": [list(x) for x in mu], "api_dates": dates,
    }
    rep.assumptions = [
        "valid structures as scoped in DESIGN.md 1.1 (fg-children have no partner, partners share a household, "
        "co-resident parents of a person are partners, nobody is partner of own parent)",
        "labelled-structure symmetry: running every labelled structure in identity order covers every row order; "
        "explicit all-order runs up to the stated bound cross-check it",
        "'randomly beyond five persons' is not covered (sampling is outside this technique)",
    ]
    return rep.finish(
        "every labelled pointer structure (5 age roles, <=2 households, all partner matchings, all 0-2 parent pointers, all subsets of "
        "self-sufficient fg-children) up to the bound, executed on the real grouping functions in all row orders and via "
        "compute_taxes_and_transfers; a state is one valid labelled structure; oracle = union-find reference partitions, nesting, "
        "no cross-household collisions"
    )
