"""C08 - every date >= 2015 yields a complete, computable system."""
from __future__ import annotations

import ast
import datetime
import inspect
import itertools
import textwrap

import networkx as nx
import numpy as np

from mc import harness, popgen, sim
from mc.checks import c09
from mc.evidence import Partial, Reporter
from _gettsim.config import DEFAULT_TARGETS, TYPES_INPUT_VARIABLES
from _gettsim.functions_loader import load_and_check_functions
from _gettsim.interface import set_up_dag


def class_of(date_iso):
    d = datetime.date.fromisoformat(date_iso)
    best = None
    for c in popgen.d15():
        if c <= d:
            best = c
    return (best or popgen.d15()[0]).isoformat()


class RecDict(dict):
    """dict that records look-ups of absent keys (path, key) and wraps nested dicts lazily."""

    def __init__(self, src, path, log):
        super().__init__(src)
        self._path, self._log = path, log

    def __getitem__(self, k):
        try:
            v = dict.__getitem__(self, k)
        except KeyError:
            self._log.append((self._path, k))
            raise
        if isinstance(v, dict) and not isinstance(v, RecDict):
            v = RecDict(v, f"{self._path}.{k}", self._log)
        return v


class InstNoContainment(c09.Inst):
    """As c09.Inst but membership tests ('k' in params) stay real: they guard optional parameters."""

    def visit_Compare(self, node):  # noqa: N802
        if any(isinstance(op, (ast.In, ast.NotIn)) for op in node.ops):
            return node
        return super().visit_Compare(node)

    def cond(self, node):
        if isinstance(node, ast.Compare) and any(isinstance(op, (ast.In, ast.NotIn)) for op in node.ops):
            return node
        return super().cond(node)


LITERAL_MISS = []


def __k__(container, key):  # noqa: N807
    """Look-up with an integer LITERAL as key (written as `x[3]` in the rule): a miss is recorded, so that it can be told from a data-indexed miss."""
    try:
        return container[key]
    except KeyError:
        LITERAL_MISS.append(key)
        raise


class InstLiteralSubscripts(InstNoContainment):
    def visit_Subscript(self, node):  # noqa: N802
        node = self.generic_visit(node)
        if isinstance(node.ctx, ast.Load) and isinstance(node.slice, ast.Constant) and isinstance(node.slice.value, int) and not isinstance(node.slice.value, bool):
            return ast.copy_location(ast.Call(func=ast.Name(id="__k__", ctx=ast.Load()), args=[node.value, node.slice], keywords=[]), node)
        return node


def literal_keys(func):
    keys = set()
    try:
        tree = ast.parse(textwrap.dedent(inspect.getsource(func)))
    except Exception:  # noqa: BLE001
        return keys
    for n in ast.walk(tree):
        if isinstance(n, ast.Subscript) and isinstance(n.slice, ast.Constant) and isinstance(n.slice.value, str):
            keys.add(n.slice.value)
    return keys


def instrumented(func):
    src = textwrap.dedent(inspect.getsource(func))
    tree = ast.parse(src)
    fd = tree.body[0]
    fd.decorator_list = []
    inst = InstLiteralSubscripts()
    fd.body = [inst.visit(s) for s in fd.body]
    ast.fix_missing_locations(tree)
    g = dict(func.__globals__)
    g["__c__"] = c09.__c__
    g["__k__"] = __k__
    f2 = c09.compile_function(ast.unparse(tree), fd.name, g)
    return f2, inst.k


def table_alphabet(arg, year):
    """Valid values of integer arguments that rules use as keys into parameter tables."""
    if arg == "mietstufe":
        return popgen.alphabet("mietstufe", year)
    if arg == "alter":
        return list(range(0, 101))
    if arg == "steuerklasse":
        return [1, 2, 3, 4, 5, 6]
    if arg == "behinderungsgrad":
        return list(range(0, 101, 10))
    if arg == "geburtsjahr":
        return list(range(year - 100, year + 1))
    if arg == "geburtsmonat" or arg == "monat_renteneintr":
        return list(range(1, 13))
    if arg == "geburtstag":
        return [1, 15, 28, 31]
    if arg in ("jahr_renteneintr",):
        return list(range(year - 15, year + 45))
    if arg.startswith("monate_") or arg.endswith("_monate") or arg.startswith("m_"):
        return list(range(0, 37))
    if arg in ("grundr_zeiten", "grundr_bew_zeiten"):
        return list(range(0, 601, 12)) + [395, 396, 397, 419, 420, 421]
    if arg.startswith("anz_personen"):
        return list(range(1, 13))
    if arg.startswith("anz_erwachsene"):
        return list(range(0, 5))
    if arg.startswith("anz_") or "_anz_" in arg:
        return list(range(0, 11))
    return None


def task_class(date_iso):
    """(a) graph completeness and (b) path-exhaustive literal-key parameter access for one day."""
    out = Partial()
    cls = class_of(date_iso)
    p, f = harness.env(date_iso)
    cols = list(TYPES_INPUT_VARIABLES)
    case0 = {"date": date_iso, "class": cls}
    try:
        fn, fo = load_and_check_functions(f, list(DEFAULT_TARGETS), cols, {}, {})
        dag = set_up_dag(fn, list(DEFAULT_TARGETS), set(fo), "ignore")
    except Exception as e:  # noqa: BLE001
        out.violation(f"graph:cannot-build:{type(e).__name__}:class-{cls}", case0, repr(e)[:300])
        return out.dump()
    out.state(("graph", date_iso))
    out.step()
    if not nx.is_directed_acyclic_graph(dag):
        cyc = nx.find_cycle(dag)
        out.violation(f"graph:cycle:class-{cls}", {**case0, "cycle": [list(e) for e in cyc][:6]}, str(cyc[:6]))
    for t in DEFAULT_TARGETS:
        if t not in dag:
            out.violation(f"graph:default-target-missing:{t}:class-{cls}", case0, t)
    for n in dag.nodes:
        if dag.in_degree(n) == 0:
            if n in TYPES_INPUT_VARIABLES or n.endswith("_params"):
                continue  # parameter dictionaries are partialled into the rules before execution
            if n in fn:
                params_only = all(a.endswith("_params") for a in inspect.signature(fn[n]).parameters)
                if params_only:
                    continue
            out.violation(f"graph:leaf-not-a-documented-input:{n}:class-{cls}", {**case0, "leaf": n,
                          "needed_by": sorted(dag.successors(n))[:5]}, f"{n} is needed on {date_iso} but is neither computed nor a documented input")
    # rounding specs of every rule in the graph
    for n in dag.nodes:
        if n in fn:
            key = (getattr(fn[n], "__info__", {}) or {}).get("params_key_for_rounding")
            if key and n not in p.get(key, {}).get("rounding", {}):
                out.violation(f"rounding-spec-missing:{key}.{n}:class-{cls}", {**case0, "rule": n}, f"{n} carries rounding key {key!r} but params[{key!r}]['rounding'] has no entry on {date_iso}")
    # (b) every policy rule in the graph: all control-flow paths, real parameters behind a recording proxy
    rules = {n: f[n] for n in dag.nodes if n in f and not (getattr(f[n], "__info__", {}) or {}).get("skip_vectorization")}
    for n, func in sorted(rules.items()):
        try:
            f2, m = instrumented(func)
        except Exception:  # noqa: BLE001
            out.count("rules_not_instrumentable")
            continue
        if m > 12:
            out.count("rules_with_too_many_tests")
            continue
        lits = literal_keys(func)
        log = []
        sig = inspect.signature(func)
        ann = func.__annotations__
        args = {}
        for a in sig.parameters:
            if a.endswith("_params"):
                args[a] = RecDict(p.get(a[:-7], {}), a[:-7], log)
            else:
                args[a] = c09.default_for(a, ann.get(a), p)
        out.state(("rule", n, func.__name__, cls))
        c09.STATE["mode"], c09.STATE["m"] = "scalar", m
        reported = set()
        for j in range(2**m):
            c09.STATE["j"] = j
            del log[:]
            del LITERAL_MISS[:]
            try:
                with np.errstate(all="ignore"):
                    f2(**args)
                out.step()
            except KeyError as e:
                out.step()
                key = e.args[0] if e.args else None
                literal_int = bool(LITERAL_MISS) and LITERAL_MISS[-1] == key and not isinstance(key, str)  # written as x[3] in the rule
                if log and log[-1][1] == key and (isinstance(key, str) or literal_int):  # literal or computed (e.g. region = "ost" if ... else "west")
                    path = f"{log[-1][0]}.{key}"
                    if path not in reported:
                        reported.add(path)
                        out.violation(f"missing-parameter:{path}:class-{cls}", {**case0, "rule": n, "function": func.__name__, "path": j, "parameter": path},
                                      f"rule {n} ({func.__name__}, active on {date_iso}) reads params {path}, which has no value on that date")
            except NotImplementedError as e:
                out.step()
                out.violation(f"not-implemented:{n}:class-{cls}", {**case0, "rule": n, "path": j}, repr(e)[:200])
            except Exception:  # noqa: BLE001
                out.step()
        # parameter tables indexed by data: the un-instrumented rule (real conditions, so only feasible branches run) with every valid
        # value of its integer "table" arguments, singly and in pairs; a table without an entry for a valid value is a missing parameter
        c09.STATE["mode"] = None
        year = int(date_iso[:4])
        targs = [(a, table_alphabet(a, year)) for a in sig.parameters if ann.get(a) is int and table_alphabet(a, year)]
        combos = [((a,), [(v,) for v in al]) for a, al in targs]
        combos += [((a, b), [(v, w) for v in al for w in bl]) for (a, al), (b, bl) in itertools.combinations(targs, 2)]
        for names_, values in combos:
            for vals in values:
                del log[:]
                try:
                    with np.errstate(all="ignore"):
                        func(**{**args, **dict(zip(names_, vals))})
                    out.step()
                except KeyError as e:
                    out.step()
                    key = e.args[0] if e.args else None
                    if log and log[-1][1] == key and key in vals:
                        a = names_[vals.index(key)]
                        path = f"{log[-1][0]}[{a}={key}]"
                        if path not in reported:
                            reported.add(path)
                            out.violation(f"missing-table-entry:{path}:class-{cls}", {**case0, "rule": n, "function": func.__name__, "arguments": dict(zip(names_, vals))},
                                          f"rule {n} ({func.__name__}, active on {date_iso}) looks up {log[-1][0]}[{key}] for {dict(zip(names_, vals))}: a valid value without an entry on that date")
                except IndexError as e:
                    out.step()
                    path = f"index[{','.join(names_)}={vals}]"
                    if path not in reported and len(reported) < 50:
                        reported.add(path)
                        out.violation(f"table-index-out-of-range:{n}:class-{cls}", {**case0, "rule": n, "function": func.__name__, "arguments": dict(zip(names_, vals))},
                                      f"rule {n} ({func.__name__}, active on {date_iso}) raises IndexError for the valid arguments {dict(zip(names_, vals))}: {e}")
                except Exception:  # noqa: BLE001
                    out.step()
        c09.STATE["mode"] = None
    out.count("rules_explored", len(rules))
    out.sample({"date": date_iso, "rules": len(rules), "nodes": dag.number_of_nodes()}, limit=1)
    return out.dump()


def task_sims(arg):
    """(c) whole populations must simulate without raising."""
    date_iso, items = arg
    out = Partial()
    cls = class_of(date_iso)
    for label, rows in items:
        df = popgen.frame(rows)
        out.state(("sim", date_iso, label))
        try:
            sim.sim(df, date_iso, targets=None)
            out.step()
        except Exception as e:  # noqa: BLE001
            out.step()
            sig = sim.known_crash(date_iso, e) or f"simulation-raises:{type(e).__name__}:{str(e)[:50]}:class-{cls}"
            out.violation(sig, {"date": date_iso, "class": cls, "population": label, "rows": rows}, f"{label} on {date_iso}: {e!r}"[:300])
    out.sample({"date": date_iso, "populations": [l for l, _ in items[:3]]}, limit=1)
    return out.dump()


def replay(case):
    if "rows" in case:
        try:
            sim.sim(popgen.frame(case["rows"]), case["date"], targets=None)
            return True, "simulation succeeded"
        except Exception as e:  # noqa: BLE001
            return False, repr(e)[:300]
    p = task_class(case["date"])
    v = [x for x in p["violations"] if case.get("parameter", "") in x[0] or case.get("leaf", "\0") in x[0]]
    return not v, "; ".join(x[2] for x in v[:3])


def run(tier):
    rep = Reporter("C08", tier)
    thorough = tier == "thorough"
    classes = popgen.d15_classes()
    days = sorted({d.isoformat() for c in classes for d in c})
    for part in harness.pmap(task_class, harness.rotate(days)):
        rep.merge(part)
    sim_days = days if thorough else sorted({c[0].isoformat() for c in classes})
    tasks = []
    for d in sim_days:
        year = int(d[:4])
        items = [(n, popgen.library_rows(n, year)) for n in popgen.LIBRARY]
        tasks.append((d, items))
    dev_days = [c[0].isoformat() for c in classes][1::3] if thorough else [c[0].isoformat() for c in classes][4::14]
    for d in dev_days:
        year = int(d[:4])
        for name in popgen.LIBRARY:
            rows = popgen.library_rows(name, year)
            items = [(f"{name}[{i}].{col}={v}", new) for i, col, v, new in popgen.deviations(rows, year, reduced=True, max_alts=None if thorough else 1)]
            for k in range(0, len(items), 40):
                tasks.append((d, items[k : k + 40]))
    for part in harness.pmap(task_sims, harness.rotate(tasks)):
        rep.merge(part)
    rep.bound = {"classes": len(classes), "days_graph_and_rule_level": len(days), "simulation_days": len(sim_days), "deviation_days": dev_days,
                 "max_atomic_tests_per_rule": 12}
    rep.assumptions = [
        "every interval between two change dates is one equivalence class (this is what C07's stutter invariant establishes); its first and last day are explored",
        "rule level: all 2^m control-flow paths of every rule in the default-target graph are executed with the date's real parameters; only a failing "
        "look-up of a string-literal key on a *_params dictionary counts, plus (with real conditions) look-ups keyed by valid values of integer arguments (mietstufe, "
        "household sizes 1-12, counts 0-10, ages 0-100, tax classes) varied singly and in pairs; membership tests "
        "('k' in params) stay real because they guard optional parameters",
    ]
    return rep.finish(
        "per change-date class >= 2015 (first and last day): (a) the DAG of the default targets over the documented inputs is acyclic, every leaf is a "
        "documented input or parameter-only rule, every rule with a rounding key has its spec; (b) every rule in that DAG on all control-flow "
        "paths under a recording parameter proxy: a literal parameter key that is absent is a violation; (c) library households (+ k=1 deviations) "
        "simulated for the default targets must not raise"
    )
