"""C09 - rewriting a scalar rule into array form preserves its meaning (or fails loudly)."""
from __future__ import annotations

import ast
import datetime
import inspect
import itertools
import linecache
import textwrap

import numpy as np

from mc import harness, popgen, sim
from mc.evidence import Partial, Reporter
from _gettsim.functions_loader import load_internal_functions
from _gettsim.vectorization import TranslateToVectorizableError, make_vectorizable

# ------------------------------------------------------------------ instrumentation of atomic tests
STATE = {"mode": None, "j": 0, "m": 0}


def __c__(k, e):  # noqa: N807
    """Atomic test number k.  paths mode: answer from the harness, ignoring the expression."""
    if STATE["mode"] == "scalar":
        return bool((STATE["j"] >> k) & 1)
    if STATE["mode"] == "array":
        return ((np.arange(2 ** STATE["m"]) >> k) & 1).astype(bool)
    return e


class Inst(ast.NodeTransformer):
    """Wrap every atomic test (Compare, or a bare name/subscript/call in a boolean position) in __c__(k, expr)."""

    def __init__(self):
        self.k = 0

    def wrap(self, node):
        k = self.k
        self.k += 1
        return ast.Call(func=ast.Name(id="__c__", ctx=ast.Load()), args=[ast.Constant(k), node], keywords=[])

    def visit_Compare(self, node):  # noqa: N802
        self.generic_visit(node)
        return self.wrap(node)

    def cond(self, node):
        if isinstance(node, ast.BoolOp):
            node.values = [self.cond(v) for v in node.values]
            return node
        if isinstance(node, ast.UnaryOp) and isinstance(node.op, ast.Not):
            node.operand = self.cond(node.operand)
            return node
        if isinstance(node, ast.Compare):
            return self.visit(node)
        if isinstance(node, (ast.Name, ast.Subscript, ast.Attribute)):
            return self.wrap(node)
        return self.visit(node)

    def visit_If(self, node):  # noqa: N802
        node.test = self.cond(node.test)
        node.body = [self.visit(b) for b in node.body]
        node.orelse = [self.visit(b) for b in node.orelse]
        return node

    def visit_IfExp(self, node):  # noqa: N802
        node.test = self.cond(node.test)
        node.body = self.visit(node.body)
        node.orelse = self.visit(node.orelse)
        return node

    def visit_BoolOp(self, node):  # noqa: N802
        return self.cond(node)

    def visit_UnaryOp(self, node):  # noqa: N802
        if isinstance(node.op, ast.Not):
            return self.cond(node)
        return self.generic_visit(node)


_counter = itertools.count()


def compile_function(src, name, glob):
    """exec `src` under a registered pseudo file name so that inspect.getsource works on the result."""
    fname = f"<verif-c09-{next(_counter)}>"
    glob.setdefault("__name__", "verif_c09_scratch")
    linecache.cache[fname] = (len(src), None, src.splitlines(True), fname)
    exec(compile(src, fname, "exec"), glob)  # noqa: S102
    return glob[name]


def private_copy(func, instrument):
    """A copy of `func` (decorators stripped) living in a copy of its module globals."""
    src = textwrap.dedent(inspect.getsource(func))
    tree = ast.parse(src)
    fd = tree.body[0]
    fd.decorator_list = []
    m = 0
    if instrument:
        inst = Inst()
        fd.body = [inst.visit(s) for s in fd.body]
        m = inst.k
    ast.fix_missing_locations(tree)
    g = dict(func.__globals__)
    g["__c__"] = __c__
    f2 = compile_function(ast.unparse(tree), fd.name, g)
    f2.__module__ = func.__module__
    return f2, m


def env_date_for(func):
    info = getattr(func, "__info__", None) or {}
    s, e = info.get("start_date", datetime.date(1, 1, 1)), info.get("end_date", datetime.date(9999, 12, 31))
    d = datetime.date(2020, 1, 1)
    if not (s <= d <= e):
        d = s if s.year > 1 else e
    if d.year < 1985:
        d = min(max(d, datetime.date(1985, 1, 1)), e)
    return d.isoformat()


def default_for(name, ann, params):
    if name.endswith("_params"):
        return params[name[:-7]]
    if ann is bool:
        return True
    if ann is int:
        return 3
    if ann is np.datetime64 or "datetime" in str(ann):
        return np.datetime64("1985-06-15")
    return 100.0


def _same(x, s):
    try:
        if isinstance(s, (float, np.floating)) and s != s:
            return bool(x != x)
        return bool(x == s)
    except Exception:  # noqa: BLE001
        return False


def compare_paths(out, name, func, sig_prefix):
    """Path-exhaustive comparison of one function.  Returns outcome label."""
    try:
        f2, m = private_copy(func, instrument=True)
    except Exception as e:  # noqa: BLE001
        out.count("instrumentation_failed")
        return f"inst-fail:{type(e).__name__}"
    if m > 12:
        out.count("too_many_atomic_tests")
        return "too-many"
    try:
        fv = make_vectorizable(f2, "numpy")
    except TranslateToVectorizableError:
        return "rewrite-rejected"
    except Exception as e:  # noqa: BLE001
        return f"rewrite-raises:{type(e).__name__}"
    params, _ = harness.env(env_date_for(func))
    n = 2**m
    STATE["m"] = m
    ann = func.__annotations__
    sig = inspect.signature(func)
    base = {a: default_for(a, ann.get(a), params) for a in sig.parameters}
    arr = {}
    for a, v in base.items():
        if isinstance(v, float):
            arr[a] = v + np.arange(n) * 0.5
        elif isinstance(v, (bool, int)):
            arr[a] = np.full(n, v)
        elif isinstance(v, np.datetime64):
            arr[a] = np.full(n, v)
        else:
            arr[a] = v
    STATE["mode"] = "array"
    try:
        with np.errstate(all="ignore"):
            outv = fv(**{a: (v.copy() if isinstance(v, np.ndarray) else v) for a, v in arr.items()})
    except Exception as e:  # noqa: BLE001
        STATE["mode"] = None
        return f"array-call-raises:{type(e).__name__}"
    outv = np.asarray(outv)
    if outv.shape == (n,):
        outb = outv
    elif outv.shape == ():
        outb = None  # decided below: only fine if the scalar results do not vary
    else:
        outb = False
    STATE["mode"] = "scalar"
    mism = []
    cmpd = 0
    svals = []
    for j in range(n):
        STATE["j"] = j
        args = {a: (v[j].item() if isinstance(v, np.ndarray) and v.dtype.kind != "M" else (v[j] if isinstance(v, np.ndarray) else v)) for a, v in arr.items()}
        try:
            s = f2(**args)
        except Exception:  # noqa: BLE001
            continue
        cmpd += 1
        svals.append(s)
        if outb is False:
            mism.append(j)
        elif outb is None:
            if not _same(outv.item() if outv.dtype.kind != "M" else outv[()], s):
                mism.append(j)
        elif not _same(outb[j], s):
            mism.append(j)
    STATE["mode"] = None
    out.step(cmpd)
    if mism:
        j = mism[0]
        STATE["mode"], STATE["j"] = "scalar", j
        try:
            sj = f2(**{a: (v[j].item() if isinstance(v, np.ndarray) and v.dtype.kind != "M" else (v[j] if isinstance(v, np.ndarray) else v)) for a, v in arr.items()})
        except Exception:  # noqa: BLE001
            sj = None
        STATE["mode"] = None
        got = outb[j] if isinstance(outb, np.ndarray) else (outv.tolist() if outv.size < 5 else f"array of shape {outv.shape}")
        out.violation(f"{sig_prefix}:{name}:silently-different", {"function": name, "module": func.__module__, "atomic_tests": m, "path": j,
                                                                  "paths_differing": len(mism), "paths_compared": cmpd},
                      f"{func.__module__}.{name}: array form differs from the scalar rule on {len(mism)}/{cmpd} paths; path {j}: scalar {sj!r} array {got!r}")
        return "MISMATCH"
    if cmpd == 0:
        return "no-scalar-path"
    return "agree"


CONCRETE = {
    float: [0.0, 1.0, 0.5, 450.0, 2000.0, -3.0, 1e6],
    int: [0, 1, 2, 17, 18, 25, 67],
    bool: [False, True],
}


def concrete_inputs(func, params, cap=400):
    """Argument columns from typed alphabets: base tuple, all single and all pairwise deviations (same alphabet per type, so that
    equal values of different arguments occur)."""
    sig = inspect.signature(func)
    ann = func.__annotations__
    names = [a for a in sig.parameters if not a.endswith("_params")]
    alph = []
    for a in names:
        t = ann.get(a)
        if t in CONCRETE:
            alph.append(CONCRETE[t])
        elif t is np.datetime64 or "datetime" in str(t):
            alph.append([np.datetime64("1950-03-01"), np.datetime64("2001-12-31")])
        else:
            alph.append(CONCRETE[float])
    base = tuple(x[1] for x in alph)
    rows = [base]
    seen = {repr(base)}
    for i in range(len(names)):
        for v in alph[i]:
            t = base[:i] + (v,) + base[i + 1:]
            if repr(t) not in seen:
                seen.add(repr(t))
                rows.append(t)
    for i, j in itertools.combinations(range(len(names)), 2):
        for v in alph[i]:
            for w in alph[j]:
                t = list(base)
                t[i], t[j] = v, w
                if repr(tuple(t)) not in seen and len(rows) < cap:
                    seen.add(repr(tuple(t)))
                    rows.append(tuple(t))
    fixed = {a: params[a[:-7]] for a in sig.parameters if a.endswith("_params") and a[:-7] in params}
    return names, rows, fixed


def compare_concrete(out, name, func):
    """Real conditions: the un-instrumented rule, scalar vs array form, on typed argument alphabets."""
    try:
        f2, _ = private_copy(func, instrument=False)
        fv = make_vectorizable(f2, "numpy")
    except Exception:  # noqa: BLE001
        return "rewrite-fails"
    params, _ = harness.env(env_date_for(func))
    names, rows, fixed = concrete_inputs(func, params)
    if not names:
        return "no-data-arguments"
    scal = []
    with np.errstate(all="ignore"):
        for r in rows:
            try:
                scal.append(f2(**dict(zip(names, r)), **fixed))
            except Exception:  # noqa: BLE001
                scal.append(None)
    cols = {a: np.array([r[i] for r in rows]) for i, a in enumerate(names)}
    try:
        with np.errstate(all="ignore"):
            res = np.asarray(fv(**{k: v.copy() for k, v in cols.items()}, **fixed))
    except Exception:  # noqa: BLE001
        return "array-call-raises"
    n = len(rows)
    if res.shape == (n,):
        bad = [i for i in range(n) if scal[i] is not None and not _same(res[i], scal[i])]
    elif res.shape == ():
        bad = [i for i in range(n) if scal[i] is not None and not _same(res[()], scal[i])]
    else:
        bad = [i for i in range(n) if scal[i] is not None]
    out.step(sum(1 for x in scal if x is not None))
    if bad:
        i = bad[0]
        got = res[i] if res.shape == (n,) else f"shape {res.shape}"
        out.violation(f"corpus:{name}:silently-different", {"function": name, "module": func.__module__, "concrete": True, "inputs": dict(zip(names, rows[i])),
                                                          "rows_differing": len(bad), "rows_compared": n},
                      f"{func.__module__}.{name}: array form differs from the scalar rule on {len(bad)}/{n} concrete inputs; {dict(zip(names, rows[i]))}: scalar {scal[i]!r} array {got!r}")
        return "MISMATCH"
    return "agree"


def task_corpus(names):
    out = Partial()
    fs = load_internal_functions()
    for name in names:
        func = fs[name]
        out.state(("corpus", func.__module__, name))
        if getattr(func, "__info__", {}).get("skip_vectorization"):
            out.outcome("skip_vectorization")
            out.count("corpus_skip_vectorization")
            continue
        label = compare_paths(out, name, func, "corpus")
        out.outcome(label.split(":")[0])
        out.count("corpus_" + label.split(":")[0])
        label2 = compare_concrete(out, name, func)
        out.count("concrete_" + label2)
    out.sample({"functions": names[:3]}, limit=1)
    return out.dump()


# ------------------------------------------------------------------ restricted-style grammar
CONDS = [
    "a0", "not a0", "a0 and a1", "a0 or a1", "not (a0 and a1)", "(a0 or a1) and a2", "not a0 and not a1", "x > y", "x <= y and a0",
    "any([a0, a1])", "all((a0, a1))", "a0 or not a2",
    "x >= y", "not x >= y", "not x > y", "x == y", "not x == y", "x != y", "not (x < y)", "not x <= y or a0", "x < y < z",
    "x", "x - y", "not x",
    "a0 and not a1 and a2", "a0 or (a1 and a2)", "a0 or a1 or a2", "not (a0 or a1) and a2", "(a0 and a1) or (not a0 and a2)", "a0 and (a1 or not a2)",
]
EXPRS = [
    "x", "y + 1.0", "2.0", "x + y", "min(x, y)", "max(x, y)", "min([x, y])", "max((x, z))", "sum([x, y])", "sum((x, y, z))",
    "x if a2 else y", "x if a1 else (y if a2 else z)", "max(x, 0.0) + min(y, z)", "max(min(x, y), z)", "min(max(x, y), z)",
    "-x", "abs(x - y)", "x * (y - z)", "x // 2.0 + y % 2.0", "True", "False",
]
EXPRS_SMALL = ["x", "y + 1.0", "min(x, y)", "x if a2 else y", "max([y, z])", "max(min(x, y), z)", "True if x else False", "False"]
CONDS_SMALL = ["a0", "not a1", "a0 and a1", "x > y", "a1 or a2", "not x >= y", "x != z", "a0 and not a1 and a2", "a0 or (a1 and a2)"]
CONDS_TINY = ["a0", "not a1", "x > y", "a1 or a2"]
EXPRS_TINY = ["x", "y + 1.0", "min(max(x, y), z)", "x if a2 else z"]
# constructs beyond the restricted style that rules could plausibly use: membership tests, identity tests, chained comparisons,
# and / or on numbers used as VALUES (Python returns an operand), arithmetic on Booleans, conversions
CONDS_EXTRA = [
    "x in (y, z)", "x not in (y, z)", "x in [y, 2.0]", "x in (0.0, 2.0)", "x not in [0.0, 3.0]", "y in (x,)", "a0 in (a1, a2)", "not x in (y, z)",
    "(x in (y, z)) and a0", "x is None", "x is not None", "0.0 <= x < y", "x == y == z", "x > y > z", "-1.0 < x <= y <= 3.0", "a0 == (x > y)", "a0 != a1",
    "bool(x)", "x > 0 and y", "x or y", "(x or y) > 1", "(x and y) == z", "a0 and x",
]
EXPRS_EXTRA = [
    "x or y", "x and y", "a0 or x", "a0 and x", "not x", "x if x in (y, z) else 0.0", "float(a0)", "int(x)", "round(x)", "x ** 2", "(-x) ** 2.0", "x // y",
    "x % y", "abs(-x)", "min(x, y, key=abs)", "max(x, y if a0 else z)", "x * a0", "a0 + a1", "bool(x) + 1", "x > y", "(x > y) + (y > z)", "x == y", "not a0",
    "a0 - a1", "a0 * a1", "(x > y) * z",
]
HEAD = "def f(x, y, z, a0, a1, a2):\n"


def programs():
    """(form id, source) for every program of the restricted style up to depth 2."""
    for e in EXPRS:
        yield "return", HEAD + f"    return {e}\n"
    for c in CONDS:
        for e1 in EXPRS:
            for e2 in EXPRS:
                yield "if-else-return", HEAD + f"    if {c}:\n        return {e1}\n    else:\n        return {e2}\n"
                yield "assign-if-else", HEAD + f"    if {c}:\n        out = {e1}\n    else:\n        out = {e2}\n    return out\n"
    for c in CONDS:
        for e1 in EXPRS:
            for e0 in EXPRS_SMALL:
                yield "assign-if-noelse", HEAD + f"    out = {e0}\n    if {c}:\n        out = {e1}\n    return out\n"
                yield "augassign-if-noelse", HEAD + f"    out = {e0}\n    if {c}:\n        out += {e1}\n    return out\n"
                yield "if-return-noelse", HEAD + f"    if {c}:\n        return {e1}\n    return {e0}\n"
            for e2 in EXPRS_SMALL:
                for e0 in ("0.0", "x"):
                    yield "augassign-if-else-aug", HEAD + f"    out = {e0}\n    if {c}:\n        out += {e1}\n    else:\n        out += {e2}\n    return out\n"
                    yield "augassign-if-else-assign", HEAD + f"    out = {e0}\n    if {c}:\n        out += {e1}\n    else:\n        out = {e2}\n    return out\n"
                    yield "augassign-sub", HEAD + f"    out = {e0}\n    if {c}:\n        out -= {e1}\n    else:\n        out -= {e2}\n    return out\n"
                    yield "augassign-mul", HEAD + f"    out = {e0}\n    if {c}:\n        out *= {e1}\n    else:\n        out *= {e2}\n    return out\n"
    for c1 in CONDS_SMALL:
        for c2 in CONDS_SMALL:
            for e1, e2, e3 in itertools.product(EXPRS_SMALL, repeat=3):
                yield "elif-return", HEAD + f"    if {c1}:\n        return {e1}\n    elif {c2}:\n        return {e2}\n    else:\n        return {e3}\n"
                yield "elif-assign", HEAD + f"    if {c1}:\n        out = {e1}\n    elif {c2}:\n        out = {e2}\n    else:\n        out = {e3}\n    return out\n"
                yield "nested-if", (HEAD + f"    if {c1}:\n        if {c2}:\n            out = {e1}\n        else:\n            out = {e2}\n"
                                    f"    else:\n        out = {e3}\n    return out\n")
                yield "elif-noelse", HEAD + f"    out = {e3}\n    if {c1}:\n        out = {e1}\n    elif {c2}:\n        out = {e2}\n    return out\n"
    # four-way chains and chains that mix return / assignment
    for c1, c2, c3 in itertools.product(CONDS_TINY, repeat=3):
        for e1, e2, e3, e4 in itertools.product(EXPRS_TINY, repeat=4):
            yield "elif-elif-return", (HEAD + f"    if {c1}:\n        return {e1}\n    elif {c2}:\n        return {e2}\n    elif {c3}:\n        return {e3}\n"
                                       f"    else:\n        return {e4}\n")
        for e1, e2, e3 in itertools.product(EXPRS_TINY, repeat=3):
            yield "elif-elif-assign-noelse", (HEAD + f"    out = {e3}\n    if {c1}:\n        out = {e1}\n    elif {c2}:\n        out = {e2}\n    elif {c3}:\n        out = x\n    return out\n")
            yield "nested-ifexp-in-branch", (HEAD + f"    if {c1}:\n        out = {e1} if {c2} else ({e2} if {c3} else {e3})\n    else:\n        out = {e3}\n    return out\n")
            yield "minmax-of-ifexp", HEAD + f"    out = max({e1} if {c1} else {e2}, min({e3}, {e1} if {c2} else 0.0))\n    if {c3}:\n        out = out + 1.0\n    return out\n"
    for c in CONDS:
        for e1 in EXPRS_SMALL:
            yield "two-statements-in-branch", HEAD + f"    if {c}:\n        out = {e1}\n        out = out + 1.0\n    else:\n        out = 0.0\n    return out\n"
            yield "min-three-args", HEAD + f"    if {c}:\n        out = min(x, y, z)\n    else:\n        out = {e1}\n    return out\n"


def programs_extra():
    for c in CONDS_EXTRA:
        for e1, e2 in itertools.product(EXPRS_SMALL, repeat=2):
            yield "extra-cond-if-else-return", HEAD + f"    if {c}:\n        return {e1}\n    else:\n        return {e2}\n"
            yield "extra-cond-ifexp", HEAD + f"    return {e1} if {c} else {e2}\n"
        for e1 in EXPRS_TINY:
            yield "extra-cond-assign-noelse", HEAD + f"    out = {e1}\n    if {c}:\n        out = y\n    return out\n"
            for c2 in CONDS_TINY:
                yield "extra-cond-elif", HEAD + f"    if {c2}:\n        return {e1}\n    elif {c}:\n        return z\n    else:\n        return 0.0\n"
    for e in EXPRS_EXTRA:
        yield "extra-expr-return", HEAD + f"    return {e}\n"
        for c in CONDS_SMALL:
            for e2 in EXPRS_TINY:
                yield "extra-expr-if-else", HEAD + f"    if {c}:\n        out = {e}\n    else:\n        out = {e2}\n    return out\n"
                yield "extra-expr-ifexp", HEAD + f"    return {e2} if {c} else {e}\n"


_BOOLEAN_NAMES = {"a0", "a1", "a2"}


def _is_boolean_expr(node):
    if isinstance(node, ast.Name):
        return node.id in _BOOLEAN_NAMES
    if isinstance(node, ast.Constant):
        return isinstance(node.value, bool)
    if isinstance(node, ast.Compare):
        return True
    if isinstance(node, ast.UnaryOp) and isinstance(node.op, ast.Not):
        return True
    if isinstance(node, ast.BoolOp):
        return all(_is_boolean_expr(v) for v in node.values)
    return False


def features(src):
    """Constructs with recorded mistranslations (used to give a mismatch a specific signature)."""
    feats = []
    tree = ast.parse(src)
    for node in ast.walk(tree):
        if isinstance(node, ast.Call) and isinstance(node.func, ast.Name) and node.func.id in ("min", "max", "sum", "any", "all") and len(node.args) == 1:
            feats.append(f"one-argument-{node.func.id}-on-sequence")
        if isinstance(node, ast.If) and len(node.body) == 1 and isinstance(node.body[0], ast.AugAssign):
            if not node.orelse:
                feats.append("augassign-without-else")
            elif len(node.orelse) == 1 and isinstance(node.orelse[0], ast.Assign):
                feats.append("augassign-with-assign-else")
        if isinstance(node, ast.If) and len(node.body) == 1 and isinstance(node.body[0], ast.Assign) and node.orelse and len(node.orelse) == 1 \
                and isinstance(node.orelse[0], ast.AugAssign):
            feats.append("assign-with-augassign-else")
    # and / or with an operand that is not Boolean, used as a VALUE (not as the test of if / conditional expression / not / and / or):
    # Python yields one of the operands, the array form yields a truth value
    parents = {}
    for node in ast.walk(tree):
        for ch in ast.iter_child_nodes(node):
            parents[ch] = node
    for node in ast.walk(tree):
        if isinstance(node, ast.BoolOp) and not all(_is_boolean_expr(v) for v in node.values):
            par = parents.get(node)
            in_test = (isinstance(par, (ast.If, ast.IfExp)) and par.test is node) or isinstance(par, ast.BoolOp) \
                or (isinstance(par, ast.UnaryOp) and isinstance(par.op, ast.Not))
            if not in_test:
                feats.append("and-or-on-numbers-used-as-value")
        if isinstance(node, ast.BinOp) and isinstance(node.op, (ast.Add, ast.Sub, ast.Mult)) and _is_boolean_expr(node.left) and _is_boolean_expr(node.right):
            feats.append("arithmetic-on-two-booleans")
    return sorted(set(feats))


def _grid():
    fl = list(itertools.product([-1.0, 0.0, 2.0, 3.0], repeat=3))
    bl = list(itertools.product([False, True], repeat=3))
    pts = [(f, b) for f in fl for b in bl]
    cols = {}
    for i, nm in enumerate("xyz"):
        cols[nm] = np.array([p[0][i] for p in pts])
    for i in range(3):
        cols[f"a{i}"] = np.array([p[1][i] for p in pts])
    return pts, cols


def task_grammar(arg):
    k, nk = arg
    out = Partial()
    pts, cols = _grid()
    n = len(pts)
    for idx, (form, src) in enumerate(itertools.chain(programs(), programs_extra())):
        if idx % nk != k:
            continue
        out.state(src)
        g = {}
        f = compile_function(src, "f", g)
        scal = []
        for fl, bl in pts:
            try:
                scal.append(f(*fl, *bl))
            except Exception:  # noqa: BLE001
                scal.append(None)
        try:
            fv = make_vectorizable(f, "numpy")
        except TranslateToVectorizableError:
            out.outcome((form, "rewrite-rejected"))
            out.count("grammar_rewrite_rejected")
            out.step()
            continue
        except Exception as e:  # noqa: BLE001
            out.outcome((form, "rewrite-raises"))
            out.count("grammar_rewrite_raises_" + type(e).__name__)
            out.step()
            continue
        try:
            with np.errstate(all="ignore"):
                res = np.asarray(fv(**{k: v.copy() for k, v in cols.items()}))
        except Exception:  # noqa: BLE001
            out.outcome((form, "array-call-raises"))
            out.count("grammar_array_call_raises")
            out.step()
            continue
        out.step(n)
        if res.shape == (n,):
            bad = [i for i in range(n) if scal[i] is not None and not _same(res[i], scal[i])]
        elif res.shape == ():
            bad = [i for i in range(n) if scal[i] is not None and not _same(res.item(), scal[i])]
        else:
            bad = list(range(n))
        if bad:
            i = bad[0]
            feats = features(src)
            got = res[i] if res.shape == (n,) else f"shape {res.shape}"
            msg = f"array form differs on {len(bad)}/{n} inputs; inputs {pts[i]}: scalar {scal[i]!r} array {got!r}\n{src}"
            case = {"form": form, "source": src, "position": i, "inputs": pts[i]}
            if feats:
                # one signature per construct with a recorded mistranslation; a program that contains none of them gets its own signature
                for ft in feats:
                    out.violation("grammar:" + ft, case, msg)
            else:
                out.violation("grammar:no-listed-construct:form=" + form, case, msg)
            out.outcome((form, "MISMATCH"))
            out.count("grammar_mismatch")
        else:
            out.outcome((form, "agree"))
            out.count("grammar_agree")
    return out.dump()


# ------------------------------------------------------------------ purity of make_vectorizable
def _module_snapshot(mod_globals):
    snap = {}
    for k, v in mod_globals.items():
        if k == "__builtins__":
            continue
        snap[k] = (id(v), getattr(v, "__code__", None).co_code if hasattr(v, "__code__") else None)
    return snap


def task_purity(names):
    import sys

    from _gettsim import shared

    out = Partial()
    fs = load_internal_functions()
    date_iso = "2023-01-01"
    df = popgen.frame(popgen.combined(["couple_kids", "pensioners"], 2023))
    base = sim.sim_all(df, date_iso, env=harness.fresh_env(date_iso))
    for name in names:
        func = fs[name]
        mod = sys.modules[func.__module__]
        before = _module_snapshot(vars(mod))
        reg_before = {k: len(v) for k, v in shared.TIME_DEPENDENT_FUNCTIONS.items()}
        code_before = func.__code__
        info_before = dict(getattr(func, "__info__", {}) or {})
        try:
            make_vectorizable(func, "numpy")
        except Exception:  # noqa: BLE001
            pass
        out.step()
        out.state(("purity", func.__module__, name))
        after = _module_snapshot(vars(mod))
        reg_after = {k: len(v) for k, v in shared.TIME_DEPENDENT_FUNCTIONS.items()}
        case = {"function": name, "module": func.__module__}
        if after != before:
            changed = sorted(k for k in set(before) | set(after) if before.get(k) != after.get(k))
            out.violation("purity:module-globals-changed", {**case, "names": changed[:5]}, f"make_vectorizable({name}) changed module attributes {changed[:5]}")
        if reg_after != reg_before:
            changed = sorted(k for k in set(reg_before) | set(reg_after) if reg_before.get(k) != reg_after.get(k))
            out.violation("purity:registry-changed", {**case, "keys": changed[:5]}, f"TIME_DEPENDENT_FUNCTIONS grew for {changed[:5]}")
        if func.__code__ is not code_before or dict(getattr(func, "__info__", {}) or {}) != info_before:
            out.violation("purity:original-function-changed", case, "")
    try:
        again = sim.sim_all(df, date_iso, env=harness.fresh_env(date_iso))
        diffs = sim.compare_results(base, again, df["p_id"].tolist(), df["p_id"].tolist())
        if diffs:
            out.violation("purity:later-simulation-differs", {"after_vectorizing": names[:5], "diffs": diffs[:5]}, str(diffs[:3]))
    except Exception as e:  # noqa: BLE001
        out.violation("purity:later-simulation-raises", {"after_vectorizing": names[:5]}, repr(e)[:300])
    out.step()
    return out.dump()


def replay(case):
    if "source" in case:
        src = case["source"]
        f = compile_function(src, "f", {})
        fv = make_vectorizable(f, "numpy")
        pts, cols = _grid()
        res = np.asarray(fv(**{k: v.copy() for k, v in cols.items()}))
        i = case["position"]
        s = f(*pts[i][0], *pts[i][1])
        got = res[i] if res.shape == (len(pts),) else res
        ok = res.shape == (len(pts),) and _same(res[i], s)
        return ok, f"inputs {pts[i]}: scalar {s!r} array {got!r}"
    if "function" in case and "path" in case:
        fs = load_internal_functions()
        p = Partial()
        label = compare_paths(p, case["function"], fs[case["function"]], "corpus")
        return label != "MISMATCH", f"{case['function']}: {label} {[v[2] for v in p.d['violations']][:1]}"
    return True, "re-run the check"


def run(tier):
    rep = Reporter("C09", tier)
    names = sorted(load_internal_functions())
    chunks = [names[i::32] for i in range(32)]
    for part in harness.pmap(task_corpus, harness.rotate(chunks)):
        rep.merge(part)
    nk = 64
    for part in harness.pmap(task_grammar, harness.rotate([(k, nk) for k in range(nk)])):
        rep.merge(part)
    # purity last: on a defective tree it poisons the worker that runs it
    for part in harness.pmap(task_purity, harness.rotate([names[i::16] for i in range(16)])):
        rep.merge(part)
    if rep.extra.get("grammar_agree", 0) < 1000 or rep.extra.get("corpus_agree", 0) < 100:
        print("harness error: C09 exploration is vacuous (hardly any program/function could be compared)", rep.extra)
        return 2
    rep.bound = {"corpus_functions": len(names), "max_atomic_tests_per_function": 12, "grammar_depth": 2,
                 "grammar_inputs_per_program": 512, "condition_alphabet": len(CONDS), "expression_alphabet": len(EXPRS)}
    rep.assumptions = [
        "path mode: atomic tests (comparisons, bare booleans in test position) answer from the harness; all 2^m valuations per function are "
        "run in scalar form and at once in array form, arguments carry distinct values per position",
        "any exception at rewrite time or when the array form is called counts as 'fails loudly'",
        "argument values other than the per-position distinct defaults are not varied in path mode",
    ]
    return rep.finish(
        "(A) every internal policy function: source instrumented so that every atomic test is a harness-controlled choice, real make_vectorizable "
        "applied, all 2^m paths compared position by position; (B) every program of the documented restricted style up to depth 2 over 3 float and "
        "3 boolean arguments (if/elif/else with assignment, augmented assignment, return, nested if, conditional expressions, and/or/not, "
        "min/max/sum/any/all) on all 512 argument combinations (floats from {-1, 0, 2, 3}, all boolean patterns); (C) make_vectorizable on every real function leaves module globals, the "
        "registry, the function and a later simulation unchanged. A state is one function / program."
    )
