"""C11 - group and person-pointer aggregates equal their mathematical definition."""
from __future__ import annotations

import itertools
import warnings

import numpy as np
import pandas as pd

from mc import harness, popgen, sim
from mc.evidence import Partial, Reporter
from mc.ref import aggregate as RA
from _gettsim import aggregation as AG
from _gettsim.config import SUPPORTED_GROUPINGS
from _gettsim.functions_loader import load_aggregation_dict
from _gettsim.shared import join_numpy, remove_group_suffix

GIDS = [7, 0, 40, 3]  # sparse, unsorted group ids
PIDS = [11, 2, 30, 5, 8, 1]
FLOATS = [1.5, -2.25, 4.0, 1e6, 0.125, 64.0]  # dyadic: sums are exact and identify the member set
INTS = [1, -2, 4, 8, 16, 32]
DATES = np.array(["1980-05-17", "2001-01-01", "1964-12-31", "2020-02-29", "1999-09-09", "2010-10-10"], dtype="datetime64[D]")
KINDS = {
    "sum": AG.grouped_sum, "mean": AG.grouped_mean, "max": AG.grouped_max, "min": AG.grouped_min,
    "any": AG.grouped_any, "all": AG.grouped_all,
}


def _value_arrays(n, small):
    """(dtype tag, numpy array) value columns of length n."""
    out = []
    fl = FLOATS[:n]
    out.append(("float", np.array(fl)))
    out.append(("float", np.array(fl[::-1])))
    out.append(("int", np.array(INTS[:n])))
    out.append(("int", np.array(INTS[:n][::-1])))
    out.append(("date", DATES[:n].copy()))
    out.append(("date", DATES[:n][::-1].copy()))
    for bits in itertools.product([False, True], repeat=n):
        out.append(("bool", np.array(bits)))
    if small:
        for vals in itertools.product([-1.5, 0.0, 2.25], repeat=n):
            out.append(("float", np.array(vals)))
        for vals in itertools.product([-3, 0, 7], repeat=n):
            out.append(("int", np.array(vals)))
        for vals in itertools.product(range(2), repeat=n):
            out.append(("date", DATES[list(vals)].copy()))
    return out


APPLICABLE = {
    "float": ["sum", "mean", "max", "min"],
    "int": ["sum", "max", "min", "any", "all"],
    "bool": ["sum", "any", "all"],
    "date": ["max", "min"],
}


def _py(a):
    if a.dtype.kind == "M":
        return [x for x in a.astype("datetime64[D]").astype(int).tolist()]
    return a.tolist()


def _check_grouped(out, kind, tag, col, gid):
    fn = KINDS[kind]
    case = {"kind": kind, "dtype": tag, "column": col, "group_id": gid}
    try:
        got = fn(col, gid)
    except Exception as e:  # noqa: BLE001
        out.violation(f"grouped_{kind}:{tag}:exception:{type(e).__name__}", case, repr(e))
        return
    out.step()
    want = RA.grouped(kind, _py(col), gid.tolist())
    g = np.asarray(got)
    gl = _py(g) if g.dtype.kind == "M" else g.tolist()
    if len(gl) != len(want) or any((a != b) for a, b in zip(gl, want)):
        out.violation(f"grouped_{kind}:{tag}:value", case, f"got {gl} expected {want}")
        return
    ek = RA.expected_kind(kind, col.dtype.kind)
    if ek and g.dtype.kind not in ek:
        out.violation(f"grouped_{kind}:{tag}:dtype", case, f"result dtype {g.dtype}, expected kind {ek}")
    if kind == "sum" and tag in ("float", "int"):
        # conservation: sum over groups == sum over rows
        tot = {}
        for gg, v in zip(gid.tolist(), gl):
            tot[gg] = v
        if float(sum(tot.values())) != float(sum(col.tolist())):
            out.violation(f"grouped_sum:{tag}:conservation", case, f"{tot} vs {col.tolist()}")

BIG_GIDS = [2**24 + 3, 40_000_001, 7]  # survey-style group ids far above the number of rows (numpy_groupies then allocates ~4e7 slots per call)


def task_grouped_big_ids(n):
    """All assignments of arrays of length n to group ids around / above 2**24 (and one small id): rows of a group are NOT adjacent in most."""
    out = Partial()
    ids = BIG_GIDS if n <= 3 else BIG_GIDS[:2]
    fl, it = np.array(FLOATS[:n]), np.array(INTS[:n])
    bits = np.array([i % 2 == 0 for i in range(n)])
    for gid_t in itertools.product(ids, repeat=n):
        gid = np.array(gid_t)
        out.add_states(1)
        out.outcome(("big", len(set(gid_t))))
        try:
            got = AG.grouped_count(gid)
            out.step()
            want = RA.grouped("count", None, list(gid_t))
            if [float(x) for x in np.asarray(got).tolist()] != [float(x) for x in want]:
                out.violation("grouped_count:value", {"group_id": gid}, f"got {got} expected {want}")
        except Exception as e:  # noqa: BLE001
            out.violation(f"grouped_count:exception:{type(e).__name__}", {"group_id": gid}, repr(e))
        for tag, col in (("float", fl), ("int", it), ("bool", bits), ("date", DATES[:n].copy())):
            for kind in APPLICABLE[tag]:
                _check_grouped(out, kind, tag, col, gid)
    out.sample({"n": n, "group_ids": ids}, limit=1)
    return out.dump()


def task_grouped(arg):
    n, small, prefix = arg
    out = Partial()
    vals = _value_arrays(n, small)
    for rest in itertools.product(GIDS, repeat=n - len(prefix)):
        gid_t = tuple(prefix) + rest
        gid = np.array(gid_t)
        out.add_states(1)
        out.outcome(len(set(gid_t)))
        # count
        try:
            got = AG.grouped_count(gid)
            out.step()
            want = RA.grouped("count", None, list(gid_t))
            if [float(x) for x in np.asarray(got).tolist()] != [float(x) for x in want]:
                out.violation("grouped_count:value", {"group_id": gid}, f"got {got} expected {want}")
        except Exception as e:  # noqa: BLE001
            out.violation(f"grouped_count:exception:{type(e).__name__}", {"group_id": gid}, repr(e))
        for tag, col in vals:
            for kind in APPLICABLE[tag]:
                _check_grouped(out, kind, tag, col, gid)
    out.sample({"n": n, "group_ids": GIDS, "value_columns": len(vals)}, limit=1)
    return out.dump()


def task_medium(n):
    """Arrays of medium length (around typical buffer / vector sizes), many groups, special values."""
    out = Partial()
    for ngroups in (1, 3, 70, max(n // 2, 1)):
        gid = ((np.arange(n) * 7 + 3) % ngroups) * 11 + (0 if ngroups % 2 else 5)
        cols = {
            "float": ((np.arange(n) % 17) - 8) * 0.25,
            "float-special": np.where(np.arange(n) % 29 == 0, np.inf, np.where(np.arange(n) % 31 == 1, -0.0, (np.arange(n) % 5) * 1.5)),
            "float-nan": np.where(np.arange(n) % 13 == 0, np.nan, 2.0),
            "int": (np.arange(n) % 9) - 4,
            "int-large": np.full(n, 10**9 + 7, dtype=np.int64),  # group sums stay below 2**53 (numpy_groupies sums through float64)
            "bool": np.arange(n) % 3 != 0,
            "bool-all-true": np.ones(n, dtype=bool),
        }
        out.add_states(1)
        for tag, col in cols.items():
            base = tag.split("-")[0]
            for kind in APPLICABLE[base]:
                if tag == "float-nan" and kind in ("max", "min"):
                    continue  # ordering of NaN is not defined by the property
                case = {"kind": kind, "dtype": tag, "n": n, "groups": ngroups}
                try:
                    got = np.asarray(KINDS[kind](col, gid))
                except Exception as e:  # noqa: BLE001
                    out.violation(f"grouped_{kind}:{tag}:exception:{type(e).__name__}", case, repr(e)[:200])
                    continue
                out.step()
                want = RA.grouped(kind, col.tolist(), gid.tolist())
                gl = got.tolist()
                bad = [i for i, (a, b) in enumerate(zip(gl, want)) if not (a == b or (a != a and b != b))]
                if bad:
                    i = bad[0]
                    out.violation(f"grouped_{kind}:{tag}:value", {**case, "position": i}, f"length {n}, {ngroups} groups, position {i}: got {gl[i]!r} expected {want[i]!r}")
        cnt = np.asarray(AG.grouped_count(gid)).tolist()
        if [float(x) for x in cnt] != [float(x) for x in RA.grouped("count", None, gid.tolist())]:
            out.violation("grouped_count:value", {"n": n, "groups": ngroups}, "count differs")
    out.sample({"medium_n": n}, limit=1)
    return out.dump()

LARGE_N_QUICK = [1023, 1024, 1025, 1026, 2049, 4097, 8193, 10000, 10001, 12500]
LARGE_N_THOROUGH = [16384, 16385, 20011]


def task_pointer_large(n):
    """join_numpy / sum_by_p_id on long tables: every combination of a pointer layout (far forwards, far backwards, neighbours, everyone
    to the first / last / middle row, mixed with 'no pointer'), an id labelling (dense sorted, dense reversed, sparse unsorted) and a target
    dtype, against a dict reference.  Long tables are where block-wise or chunked implementations differ from the definition."""
    out = Partial()
    idx = np.arange(n)
    labellings = {
        "dense-sorted": idx.copy(),
        "dense-reversed": idx[::-1].copy(),
        "sparse-unsorted": ((idx * 7919) % n) * 3 + 10,  # 7919 is prime and larger than every n used: a permutation of 0..n-1, spread
    }
    layouts = {
        "mirror": n - 1 - idx,  # the first rows point to the last rows and vice versa
        "next": (idx + 1) % n,
        "previous": (idx - 1) % n,
        "to-first": np.zeros(n, dtype=int),
        "to-last": np.full(n, n - 1),
        "to-middle": np.full(n, n // 2),
        "half-turn": (idx + n // 2) % n,
        "stride": (idx * 7919 + 1) % n,
    }
    targets = {"float": (idx % 97) * 0.5 + 1.0, "int": (idx % 89) + 1, "bool": idx % 3 == 0}
    for lname, p_id in labellings.items():
        assert len(set(p_id.tolist())) == n
        for yname, where in layouts.items():
            for holes in (False, True):
                if holes and yname not in ("mirror", "stride"):
                    continue
                ptr_pos = np.where(where == idx, (where + 1) % n, where)  # nobody points to themselves
                ptr = p_id[ptr_pos]
                if holes:
                    ptr = np.where(idx % 4 == 1, -1, ptr)
                valid = ptr >= 0 if holes else np.ones(n, dtype=bool)
                out.add_states(1)
                for tname, tgt in targets.items():
                    miss = {"float": -7.0, "int": -7, "bool": False}[tname]
                    case = {"n": n, "labelling": lname, "layout": yname, "with_missing": holes, "dtype": tname}
                    try:
                        got = np.asarray(join_numpy(ptr, p_id, tgt, miss))
                    except Exception as e:  # noqa: BLE001
                        out.violation(f"join_numpy:large:exception:{type(e).__name__}", case, repr(e)[:200])
                        continue
                    out.step()
                    want = np.where(valid, tgt[ptr_pos], miss)
                    if got.shape != want.shape or not np.array_equal(got, want):
                        i = int(np.argmax(got != want)) if got.shape == want.shape else -1
                        out.violation(f"join_numpy:large:{yname}:value", {**case, "position": i},
                                      f"join_numpy on {n} rows ({lname} ids, layout {yname}): row {i} gets {got[i]!r}, the row pointed to holds {want[i]!r}")
                    if got.dtype.kind != np.asarray(tgt).dtype.kind:
                        out.violation(f"join_numpy:large:dtype:{tname}", case, f"{got.dtype} for a {tname} target")
                col = ((idx % 13) - 3) * 0.25
                try:
                    got_s = np.asarray(AG.sum_by_p_id(col, ptr, p_id))
                    out.step()
                    want_s = np.zeros(n)
                    np.add.at(want_s, ptr_pos[valid], col[valid])
                    if not np.array_equal(got_s, want_s):
                        i = int(np.argmax(got_s != want_s))
                        out.violation(f"sum_by_p_id:large:{yname}:value", {"n": n, "labelling": lname, "layout": yname, "position": i},
                                      f"sum_by_p_id on {n} rows: row {i} gets {got_s[i]!r}, the rows pointing to it sum to {want_s[i]!r}")
                except Exception as e:  # noqa: BLE001
                    out.violation(f"sum_by_p_id:large:exception:{type(e).__name__}", {"n": n, "labelling": lname, "layout": yname}, repr(e)[:200])
    out.sample({"large_n": n}, limit=1)
    return out.dump()


def task_pointer(arg):
    """sum_by_p_id and join_numpy over all pointer columns in {-1, -5, valid ids} and all store orders."""
    n, dense = arg
    out = Partial()
    base = list(range(n)) if dense else PIDS[:n]  # dense: the labelling 0..n-1 (shortcuts that confuse ids with positions)
    cols = [("float", np.array(FLOATS[:n])), ("int", np.array(INTS[:n])), ("bool", np.array([i % 2 == 0 for i in range(n)])),
            ("bool", np.array([True] * n))]
    for perm in itertools.permutations(range(n)):
        p_id = np.array([base[i] for i in perm])
        for ptr_t in itertools.product([-1, -5, *base], repeat=n):
            ptr = np.array(ptr_t)
            out.add_states(1)
            for tag, col in cols:
                case = {"column": col, "pointer": ptr, "p_id": p_id, "dtype": tag}
                try:
                    got = AG.sum_by_p_id(col, ptr, p_id)
                except Exception as e:  # noqa: BLE001
                    out.violation(f"sum_by_p_id:{tag}:exception:{type(e).__name__}", case, repr(e))
                    continue
                out.step()
                want = RA.sum_by_pointer(col.tolist(), ptr_t, p_id.tolist())
                g = np.asarray(got)
                if g.tolist() != want:
                    out.violation(f"sum_by_p_id:{tag}:value", case, f"got {g.tolist()} expected {want}")
                elif g.dtype.kind not in RA.expected_kind("sum", col.dtype.kind):
                    out.violation(f"sum_by_p_id:{tag}:dtype", case, f"{g.dtype}")
                if float(sum(want)) != float(sum(c for c, t in zip(col.tolist(), ptr_t) if t >= 0)):
                    raise AssertionError("reference not conservative")
            # join: look up a target by foreign key
            for tag, tgt, miss in (("float", np.array(FLOATS[:n]), -1.0), ("int", np.array(INTS[:n]), 0), ("bool", np.array([i % 2 == 0 for i in range(n)]), False)):
                case = {"foreign_key": ptr, "primary_key": p_id, "target": tgt, "missing": miss}
                try:
                    got = join_numpy(ptr, p_id, tgt, miss)
                except Exception as e:  # noqa: BLE001
                    out.violation(f"join_numpy:{tag}:exception:{type(e).__name__}", case, repr(e))
                    continue
                out.step()
                want = RA.join(ptr_t, p_id.tolist(), tgt.tolist(), miss)
                if np.asarray(got).tolist() != want:
                    out.violation(f"join_numpy:{tag}:value", case, f"got {np.asarray(got).tolist()} expected {want}")
    # loud failures
    for bad_fk in ([99], [base[0], 77]):
        try:
            join_numpy(np.array(bad_fk), np.array(base), np.array(FLOATS[:n]), 0.0)
            out.violation("join_numpy:dangling-foreign-key-accepted", {"foreign_key": bad_fk, "primary_key": base}, "")
        except ValueError:
            pass
    if n >= 2:
        try:
            join_numpy(np.array([base[0]]), np.array([base[0], base[0]]), np.array([1.0, 2.0]), 0.0)
            out.violation("join_numpy:duplicate-primary-key-accepted", {"primary_key": [base[0], base[0]]}, "")
        except ValueError:
            pass
    for name in ("mean_by_p_id", "max_by_p_id", "min_by_p_id", "any_by_p_id", "all_by_p_id"):
        fn = getattr(AG, name)
        col = np.array(FLOATS[:n]) if name in ("mean_by_p_id", "max_by_p_id", "min_by_p_id") else np.array([True] * n)
        try:
            got = fn(col, np.array([-1] * n), np.array(base))
            # if it is implemented it must agree with the reference on the trivial case
            out.count("by_p_id_kinds_implemented")
        except NotImplementedError:
            out.count("by_p_id_kinds_loudly_unimplemented")
        except Exception as e:  # noqa: BLE001
            out.violation(f"{name}:exception:{type(e).__name__}", {"n": n}, repr(e))
    out.sample({"pointer_n": n, "p_ids": base, "dense": dense}, limit=1)
    return out.dump()


# ---------------------------------------------------------------- graph level
def _group_of(name):
    for g in SUPPORTED_GROUPINGS:
        if name.endswith(f"_{g}"):
            return g
    return None


def task_graph(arg):
    date_iso, names = arg
    out = Partial()
    year = int(date_iso[:4])
    df = popgen.frame(popgen.combined(names, year))
    try:
        r = sim.sim_all(df, date_iso)
    except Exception as e:  # noqa: BLE001
        if sim.known_crash(date_iso, e):
            out.count("graph_sims_skipped_known_C08_crash")
        else:
            out.violation(f"graph:simulation-raises:{type(e).__name__}", {"date": date_iso, "households": names}, repr(e))
        return out.dump()
    _, functions = harness.env(date_iso)
    by_group = load_aggregation_dict("aggregate_by_group")
    by_pid = load_aggregation_dict("aggregate_by_p_id")
    allv = {**{c: df[c].to_numpy() for c in df.columns}, **{c: r[c].to_numpy() for c in r.columns}}
    for node in r.columns:
        g = _group_of(node)
        spec = None
        if node in by_group:
            spec = by_group[node]
        elif g and node not in functions and remove_group_suffix(node) in allv and not node.endswith("_id"):
            # derived node that is neither a rule nor a time conversion of a rule: automatic sum
            base = remove_group_suffix(node)
            import re
            m = re.fullmatch(r"(.*_)([ymwd])_" + g, node)
            timeconv = m and any((m.group(1) + u + "_" + g) in functions or (m.group(1) + u + "_" + g) in by_group for u in "ymwd")
            if not timeconv:
                spec = {"aggr": "sum", "source_col": base}
        if spec is not None and g:
            gid = allv.get(f"{g}_id")
            src = allv.get(spec.get("source_col")) if spec["aggr"] != "count" else None
            if gid is None or (src is None and spec["aggr"] != "count"):
                continue
            want = RA.grouped(spec["aggr"], None if src is None else _py(np.asarray(src)), np.asarray(gid).tolist())
            got = np.asarray(allv[node])
            gl = _py(got) if got.dtype.kind == "M" else got.tolist()
            out.step()
            out.state(("graph", node, date_iso[:4]))
            ok = all((a == b) or (isinstance(a, float) and abs(a - b) <= 4 * np.spacing(max(abs(a), abs(b)))) for a, b in zip(gl, want))
            if not ok:
                out.violation(f"graph:{node}:value", {"date": date_iso, "households": names, "node": node, "spec": spec}, f"got {gl} expected {want}")
        if node in by_pid:
            spec = by_pid[node]
            src = allv.get(spec["source_col"])
            ptr = allv.get(spec["p_id_to_aggregate_by"])
            if src is None or ptr is None:
                continue
            want = RA.sum_by_pointer(np.asarray(src).tolist(), np.asarray(ptr).tolist(), df["p_id"].tolist())
            got = np.asarray(allv[node]).tolist()
            out.step()
            out.state(("graph", node, date_iso[:4]))
            ok = all((a == b) or (isinstance(a, float) and abs(a - b) <= 4 * np.spacing(max(abs(a), abs(b)))) for a, b in zip(got, want))
            if not ok:
                out.violation(f"graph:{node}:value", {"date": date_iso, "households": names, "node": node, "spec": spec}, f"got {got} expected {want}")
    out.sample({"graph": date_iso, "households": names}, limit=1)
    return out.dump()


# ---------------------------------------------------------------- precedence
def check_precedence(rep, date_iso):
    """user spec > built-in spec > automatic sum; a supplied column beats all of them."""
    from _gettsim.interface import compute_taxes_and_transfers

    year = int(date_iso[:4])
    df = popgen.frame(popgen.combined(["couple_kids", "patchwork", "pensioners"], year))
    p, f = harness.env(date_iso)
    hh = df["hh_id"].tolist()

    def run(targets, specs=None, pid_specs=None, data=df):
        with warnings.catch_warnings():
            warnings.simplefilter("ignore")
            return compute_taxes_and_transfers(data, p, f, targets=targets, aggregate_by_group_specs=specs, aggregate_by_p_id_specs=pid_specs)

    cases = []
    # built-in spec: anz_erwachsene_hh = sum(erwachsen); user overrides with 'any'
    for kind in ("sum", "max", "min", "any", "all"):
        cases.append(("anz_erwachsene_hh", {"anz_erwachsene_hh": {"source_col": "alter", "aggr": kind}}, kind, "alter", "user-over-builtin"))
    # automatic sum: bruttolohn_m_hh; user overrides with other kinds
    for kind in ("sum", "mean", "max", "min"):
        cases.append(("bruttolohn_m_hh", {"bruttolohn_m_hh": {"source_col": "bruttolohn_m", "aggr": kind}}, kind, "bruttolohn_m", "user-over-automatic"))
    cases.append(("bruttolohn_m_hh", None, "sum", "bruttolohn_m", "automatic-sum"))
    cases.append(("vermögen_bedürft_hh", None, "sum", "vermögen_bedürft", "automatic-sum"))
    cases.append(("anz_personen_hh", {"anz_personen_hh": {"aggr": "count"}}, "count", None, "user-count"))
    cases.append(("foo_bar_hh", {"foo_bar_hh": {"source_col": "alter", "aggr": "max"}}, "max", "alter", "user-new-name"))
    # user specs at other grouping levels and for names with a time suffix
    extra_levels = []
    for lvl in ("fg", "bg", "sn", "eg", "ehe", "wthh"):
        extra_levels.append((f"bruttolohn_m_{lvl}", {f"bruttolohn_m_{lvl}": {"source_col": "bruttolohn_m", "aggr": "max"}}, "max", "bruttolohn_m", lvl))
        extra_levels.append((f"alter_min_{lvl}", {f"alter_min_{lvl}": {"source_col": "alter", "aggr": "min"}}, "min", "alter", lvl))
        extra_levels.append((f"anz_erwachsene_{lvl}", {f"anz_erwachsene_{lvl}": {"source_col": "alter", "aggr": "max"}}, "max", "alter", lvl))
    for tgt, specs, kind, src, lvl in extra_levels:
        rep.state(("precedence-level", tgt, kind))
        try:
            r = run([tgt, f"{lvl}_id"], specs)
        except Exception as e:  # noqa: BLE001
            if sim.known_crash(date_iso, e):
                rep.extra["sims_skipped_known_C08_crash"] = rep.extra.get("sims_skipped_known_C08_crash", 0) + 1
            else:
                rep.violation(f"precedence:user-spec-at-{lvl}:{tgt}:exception:{type(e).__name__}", {"target": tgt, "specs": specs, "date": date_iso}, repr(e)[:200])
            continue
        rep.step()
        want = RA.grouped(kind, df[src].tolist(), r[f"{lvl}_id"].tolist())
        if [float(x) for x in r[tgt].tolist()] != [float(x) for x in want]:
            rep.violation(f"precedence:user-spec-at-{lvl}:{tgt}", {"target": tgt, "specs": specs, "date": date_iso}, f"got {r[tgt].tolist()} expected {want}")
    for tgt, specs, kind, src, label in cases:
        rep.state(("precedence", tgt, kind, label))
        try:
            r = run([tgt], specs)
        except Exception as e:  # noqa: BLE001
            if sim.known_crash(date_iso, e):
                rep.extra["sims_skipped_known_C08_crash"] = rep.extra.get("sims_skipped_known_C08_crash", 0) + 1
            else:
                rep.violation(f"precedence:{label}:{tgt}:{kind}:exception:{type(e).__name__}", {"target": tgt, "specs": specs, "date": date_iso}, repr(e))
            continue
        rep.step()
        want = RA.grouped(kind, None if src is None else df[src].tolist(), hh)
        got = r[tgt].tolist()
        if [float(x) for x in got] != [float(x) for x in want]:
            rep.violation(f"precedence:{label}:{tgt}:{kind}", {"target": tgt, "specs": specs, "date": date_iso}, f"got {got} expected {want}")
    # built-in is used when no user spec: anz_erwachsene_hh == sum(erwachsen)
    r = run(["anz_erwachsene_hh", "erwachsen"])
    rep.step()
    want = RA.grouped("sum", r["erwachsen"].tolist(), hh)
    if r["anz_erwachsene_hh"].tolist() != want:
        rep.violation("precedence:builtin:anz_erwachsene_hh", {"date": date_iso}, f"{r['anz_erwachsene_hh'].tolist()} vs {want}")
    # user by-p_id spec
    spec = {"lohn_der_kinder_m": {"p_id_to_aggregate_by": "p_id_elternteil_1", "source_col": "bruttolohn_m", "aggr": "sum"}}
    try:
        r = run(["lohn_der_kinder_m"], None, spec)
        rep.step()
        want = RA.sum_by_pointer(df["bruttolohn_m"].tolist(), df["p_id_elternteil_1"].tolist(), df["p_id"].tolist())
        if r["lohn_der_kinder_m"].tolist() != want:
            rep.violation("precedence:user-by-p_id", {"spec": spec}, f"{r['lohn_der_kinder_m'].tolist()} vs {want}")
    except Exception as e:  # noqa: BLE001
        rep.violation(f"precedence:user-by-p_id:exception:{type(e).__name__}", {"spec": spec}, repr(e))
    # supplied column beats user spec, built-in spec and automatic sum
    for tgt, specs in (("anz_erwachsene_hh", {"anz_erwachsene_hh": {"source_col": "alter", "aggr": "max"}}), ("bruttolohn_m_hh", None)):
        data = df.copy()
        marker = [float(h) * 1000.0 + 7 for h in hh] if tgt == "bruttolohn_m_hh" else [int(h) * 1000 + 7 for h in hh]
        data[tgt] = marker
        dep = "anz_erwachsene_hh" if tgt == "anz_erwachsene_hh" else "bruttolohn_m_hh"
        # a user function consuming the column shows which value is used
        ns = {}
        exec(f"def verif_probe({dep}):\n    return {dep}\n", ns)  # noqa: S102
        probe = ns["verif_probe"]
        try:
            with warnings.catch_warnings():
                warnings.simplefilter("ignore")
                r = compute_taxes_and_transfers(data, p, [f, {"verif_probe": probe}], targets=["verif_probe"], aggregate_by_group_specs=specs)
            rep.step()
            if [float(x) for x in r["verif_probe"].tolist()] != [float(x) for x in marker]:
                rep.violation(f"precedence:data-over-all:{tgt}", {"target": tgt}, f"{r['verif_probe'].tolist()} vs supplied {marker}")
        except Exception as e:  # noqa: BLE001
            rep.violation(f"precedence:data-over-all:{tgt}:exception:{type(e).__name__}", {"target": tgt}, repr(e))


def replay(case):
    if "kind" in case and "group_id" in case:
        col = np.array(case["column"]) if case["dtype"] != "date" else np.array(case["column"], dtype="datetime64[D]")
        gid = np.array(case["group_id"])
        got = KINDS[case["kind"]](col, gid)
        want = RA.grouped(case["kind"], _py(col), gid.tolist())
        g = np.asarray(got)
        gl = _py(g) if g.dtype.kind == "M" else g.tolist()
        return gl == want, f"got {gl} expected {want}"
    if "layout" in case and "n" in case:
        part = task_pointer_large(case["n"])
        bad = [v for v in part["violations"] if f":{case['layout']}:" in v[0] or "exception" in v[0]]
        return not bad, "; ".join(v[2] for v in bad[:2])
    return True, "re-run the check for this case kind"


def run(tier):
    rep = Reporter("C11", tier)
    thorough = tier == "thorough"
    nmax = 6 if thorough else 5
    tasks = []
    for n in range(1, nmax + 1):
        k = max(0, n - 3)  # split by the first k group ids to balance the pool
        tasks += [(n, n <= (5 if thorough else 4), pre) for pre in itertools.product(GIDS, repeat=k)]
    for part in harness.pmap(task_grouped, harness.rotate(tasks)):
        rep.merge(part)
    for part in harness.pmap(task_grouped_big_ids, [2, 3, 4, 5] + ([6] if thorough else [])):
        rep.merge(part)
    for part in harness.pmap(task_medium, [6, 31, 32, 33, 64, 255, 256, 257, 300, 1000, 1025, 4097]):
        rep.merge(part)
    large = LARGE_N_QUICK + (LARGE_N_THOROUGH if thorough else [])
    for part in harness.pmap(task_pointer_large, large[::-1]):
        rep.merge(part)
    ptasks = [(n, False) for n in (1, 2, 3)] + [(n, True) for n in (1, 2, 3, 4)] + ([(4, False), (5, True)] if thorough else [])
    for part in harness.pmap(task_pointer, ptasks):
        rep.merge(part)
    dates = popgen.quick_dates(3) if not thorough else popgen.d15()
    combos = [["couple_kids", "single_parent"], ["patchwork", "pensioners", "three_gen"], ["parent_elsewhere", "young_adult", "parental_leave"]]
    gt = [(d.isoformat(), c) for d in dates for c in combos]
    for part in harness.pmap(task_graph, harness.rotate(gt)):
        rep.merge(part)
    for d in (dates if thorough else dates[-1:]):
        check_precedence(rep, d.isoformat())
    rep.bound = {"array_length": nmax, "group_id_alphabet": GIDS, "large_group_ids": BIG_GIDS, "full_value_alphabets_up_to": 5 if thorough else 4,
                 "pointer_n": 4 if thorough else 3, "pointer_long_tables": large, "graph_dates": [d.isoformat() for d in dates]}
    rep.assumptions = ["reference mc/ref/aggregate.py (dict of member lists, math.fsum); dyadic values make float sums exact",
                       "grouped_count's dtype is not constrained (implementation returns float counts)", "integer group sums are exact up to 2**53 (numpy_groupies accumulates in float64); larger sums are outside the alphabet",
                       "by-p_id kinds other than sum raise NotImplementedError in the numpy backend (loud, accepted)"]
    return rep.finish(
        "all group-id assignments of length n over a sparse unsorted id alphabet x value columns (distinct dyadic floats/ints identifying "
        "member sets, all bool patterns, dates, full small alphabets for small n) x all seven kinds on the real grouped_* functions; all pointer "
        "columns over {-1,-5,valid} x all store orders for sum_by_p_id/join_numpy; every aggregation node of all-nodes simulations; precedence "
        "user > built-in > automatic and data > all through compute_taxes_and_transfers"
    )
