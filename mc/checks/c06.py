"""C06 - a reform changes only what depends on it (reform locality)."""
from __future__ import annotations

import copy
import functools
import inspect
import types
import warnings

import networkx as nx
import numpy as np

from mc import harness, popgen, sim
from mc.evidence import Partial, Reporter
from _gettsim.config import INTERNAL_PARAMS_GROUPS
from _gettsim.functions_loader import load_and_check_functions
from _gettsim.interface import compute_taxes_and_transfers

POP = ["couple_kids", "single_parent", "pensioners", "unemployed", "parental_leave"]
POP2 = ["patchwork", "self_employed", "three_gen", "erwerbsgemindert", "young_adult"]


def run_api(df, p, f, targets):
    with warnings.catch_warnings():
        warnings.simplefilter("ignore")
        return compute_taxes_and_transfers(df, p, f, targets=targets)


def perturb(x, mode):
    """Perturb every numeric leaf: floats x1.07, ints +1 (mode 'all') or floats only (mode 'floats')."""
    if isinstance(x, dict):
        return {k: (v if k in ("datum", "rounding") else perturb(v, mode)) for k, v in x.items()}
    if isinstance(x, bool) or isinstance(x, (str, np.datetime64)) or x is None:
        return x
    if isinstance(x, np.ndarray):
        return x * 1.07 if x.dtype.kind == "f" else (x + 1 if mode == "all" and x.dtype.kind in "iu" else x)
    if isinstance(x, (float, np.floating)):
        return x * 1.07 if np.isfinite(x) else x
    if isinstance(x, (int, np.integer)):
        return x + 1 if mode == "all" else x
    if isinstance(x, list):
        return [perturb(v, mode) for v in x]
    return x


def perturb_inplace(x, mode):
    """Same perturbation, but assigning into the existing containers (the way a user edits a deep copy of params)."""
    if isinstance(x, dict):
        for k in list(x):
            if k in ("datum", "rounding"):
                continue
            v = x[k]
            if isinstance(v, (dict, list)):
                perturb_inplace(v, mode)
            elif isinstance(v, np.ndarray):
                if v.dtype.kind == "f":
                    v *= 1.07
                elif mode == "all" and v.dtype.kind in "iu":
                    v += 1
            else:
                x[k] = perturb(v, mode)
    elif isinstance(x, list):
        for i, v in enumerate(x):
            if isinstance(v, (dict, list, np.ndarray)):
                perturb_inplace(v, mode)
            else:
                x[i] = perturb(v, mode)


def mutable_ids(x, acc):
    if isinstance(x, dict):
        acc[id(x)] = x
        for v in x.values():
            mutable_ids(v, acc)
    elif isinstance(x, list):
        acc[id(x)] = x
        for v in x:
            mutable_ids(v, acc)
    elif isinstance(x, np.ndarray):
        acc[id(x)] = x
    return acc


def task_aliasing(date_iso):
    """No mutable object is shared between two parameter groups, nor between two environments of the same date."""
    out = Partial()
    p1, f1 = harness.fresh_env(date_iso)
    p2, f2 = harness.fresh_env(date_iso)
    out.step()
    out.state(("aliasing", date_iso))
    owner = {}
    for g in p1:
        for i, obj in mutable_ids(p1[g], {}).items():
            if i in owner and owner[i] != g:
                out.violation(f"aliasing:groups-share-object:{owner[i]}+{g}", {"date": date_iso, "groups": [owner[i], g]},
                              f"params[{owner[i]!r}] and params[{g!r}] share one mutable object on {date_iso}: {str(obj)[:80]}")
            owner.setdefault(i, g)
    ids2 = {}
    for g in p2:
        mutable_ids(p2[g], ids2)
    shared = set(owner) & set(ids2)
    if shared:
        g = owner[next(iter(shared))]
        out.violation(f"aliasing:environments-share-object:{g}", {"date": date_iso, "group": g}, "two calls of set_up_policy_environment return parameter objects that share mutable state")
    return out.dump()


def graph_info(date_iso, cols, f):
    nodes = sim.all_nodes(date_iso, tuple(cols))
    dag = sim.dag_for(date_iso, tuple(cols))
    fn, _ = load_and_check_functions(f, nodes, list(cols), {}, {})
    return nodes, dag, fn


def allowed_for_group(g, nodes, dag, fn):
    users = set()
    for n in nodes:
        func = fn.get(n)
        if func is None:
            continue
        if f"{g}_params" in inspect.signature(func).parameters:
            users.add(n)
        if (getattr(func, "__info__", {}) or {}).get("params_key_for_rounding") == g:
            users.add(n)
    allowed = set(users)
    for u in users:
        if u in dag:
            allowed |= nx.descendants(dag, u)
    return users, allowed


def diff_nodes(base, got, nodes):
    keys = list(range(len(base)))
    d = sim.compare_results(base[nodes], got, keys, keys, ulps=0, check_dtype=True)
    return {c: (k, det) for c, k, det in d}


def task_params(arg):
    date_iso, names, groups = arg
    out = Partial()
    year = int(date_iso[:4])
    df = popgen.frame(popgen.combined(names, year))
    p, f = harness.env(date_iso)
    try:
        nodes, dag, fn = graph_info(date_iso, df.columns, f)
        base = run_api(df, p, f, nodes)
    except Exception as e:  # noqa: BLE001
        if sim.known_crash(date_iso, e):
            out.count("sims_skipped_known_C08_crash")
        else:
            out.violation(f"baseline-raises:{type(e).__name__}", {"date": date_iso}, repr(e)[:300])
        return out.dump()
    for g in groups:
        users, allowed = allowed_for_group(g, nodes, dag, fn)
        case = {"date": date_iso, "households": names, "group": g}
        changed_any = False
        for mode in ("all", "floats", "rounding", "inplace-on-deepcopy"):
            q = dict(p)
            if mode == "inplace-on-deepcopy":
                # the documented way of writing a reform: deep-copy the whole dictionary, then edit one group in place
                q = copy.deepcopy(p)
                perturb_inplace(q[g], "floats")
            elif mode == "rounding":
                if "rounding" not in p[g]:
                    continue
                q[g] = copy.deepcopy(p[g])
                for spec in q[g]["rounding"].values():
                    spec["base"] = spec["base"] * 2
            else:
                q[g] = perturb(copy.deepcopy(p[g]), mode)
            out.state((date_iso[:4], g, mode))
            try:
                got = run_api(df, q, f, nodes)
            except Exception as e:  # noqa: BLE001
                out.count(f"perturbed_run_raises_{mode}")
                continue
            out.step()
            d = diff_nodes(base, got, nodes)
            outside = sorted(set(d) - allowed)
            for c in outside:
                out.violation(f"params:{g}:changes-unrelated:{c}", {**case, "mode": mode, "column": c},
                              f"perturbing params[{g!r}] ({mode}) on {date_iso} changes {c} ({d[c][0]}: {d[c][1]}), which does not depend on that group")
            if d:
                changed_any = True
        out.outcome((g, changed_any, len(users)))
        if not changed_any and users:
            out.count("groups_not_exercised")
            out.setadd("groups_not_exercised_names", f"{g}@{date_iso[:4]}")
    # deep copy of the whole parameter dictionary changes nothing
    try:
        got = run_api(df, copy.deepcopy(p), f, nodes)
        out.step()
        d = diff_nodes(base, got, nodes)
        for c in sorted(d):
            out.violation(f"params:deepcopy-changes:{c}", {"date": date_iso, "households": names, "column": c}, f"{c}: {d[c]}")
    except Exception as e:  # noqa: BLE001
        out.violation(f"params:deepcopy-raises:{type(e).__name__}", {"date": date_iso}, repr(e)[:300])
    return out.dump()


def clone(func):
    g = types.FunctionType(func.__code__, func.__globals__, func.__name__, func.__defaults__, func.__closure__)
    g.__kwdefaults__ = func.__kwdefaults__
    g.__annotations__ = dict(func.__annotations__)
    g.__dict__.update(copy.deepcopy(func.__dict__))
    g.__doc__ = func.__doc__
    g.__module__ = func.__module__
    return g


def wrapper(func, how):
    ann = func.__annotations__.get("return")

    @functools.wraps(func)
    def w(*a, **k):
        r = func(*a, **k)
        if how == "same":
            return r
        if ann is bool or isinstance(r, (bool, np.bool_)):
            return not r
        if isinstance(r, np.ndarray):
            return np.logical_not(r) if r.dtype.kind == "b" else r + 1000
        return r + 1000

    w.__signature__ = inspect.signature(func)
    if hasattr(func, "__info__"):
        w.__info__ = dict(func.__info__)
    return w


def task_functions(arg):
    date_iso, names, rules = arg
    out = Partial()
    year = int(date_iso[:4])
    df = popgen.frame(popgen.combined(names, year))
    p, f = harness.env(date_iso)
    try:
        nodes, dag, fn = graph_info(date_iso, df.columns, f)
        base = run_api(df, p, f, nodes)
    except Exception as e:  # noqa: BLE001
        if sim.known_crash(date_iso, e):
            out.count("sims_skipped_known_C08_crash")
        else:
            out.violation(f"baseline-raises:{type(e).__name__}", {"date": date_iso}, repr(e)[:300])
        return out.dump()
    for n in rules:
        if n not in f or n not in nodes:
            continue
        allowed = {n} | (nx.descendants(dag, n) if n in dag else set())
        case = {"date": date_iso, "households": names, "rule": n}
        variants = {
            "clone-dict": lambda: {**f, n: clone(f[n])},
            "clone-list": lambda: [f, {n: clone(f[n])}],
            "wrapper-list": lambda: [f, {n: wrapper(f[n], "same")}],
            "perturbed-list": lambda: [f, {n: wrapper(f[n], "plus")}],
            "perturbed-dict": lambda: {**f, n: wrapper(f[n], "plus")},
            "perturbed-renamed": lambda: [f, {n: renamed(wrapper(f[n], "plus"))}],
        }
        perturbed_results = {}
        for label, build in variants.items():
            out.state((date_iso[:4], n, label))
            try:
                got = run_api(df, p, build(), nodes)
            except Exception as e:  # noqa: BLE001
                if label.startswith("perturbed"):
                    out.count("perturbed_function_run_raises")
                else:
                    out.violation(f"function:{label}:raises:{n}", {**case, "variant": label}, f"replacing {n} by an identical function ({label}) on {date_iso}: {e!r}"[:300])
                continue
            out.step()
            d = diff_nodes(base, got, nodes)
            if label.startswith("perturbed"):
                perturbed_results[label] = got
                for c in sorted(set(d) - allowed):
                    out.violation(f"function:perturbed:{n}:changes-unrelated:{c}", {**case, "column": c},
                                  f"replacing {n} on {date_iso} changes {c} ({d[c][0]}: {d[c][1]}), which is not a descendant of {n}")
                if n not in d:
                    # the replacement returns the rule's value + 1000 (or its negation): the column must differ from the baseline
                    out.violation(f"function:replacement-has-no-effect:{n}", case,
                                  f"rule {n} was replaced by a user function returning its value + 1000 / its negation on {date_iso}, but column {n} is unchanged")
                out.outcome(("perturbed", n in d))
            else:
                for c in sorted(d):
                    out.violation(f"function:{label}:changes:{c}", {**case, "variant": label, "column": c},
                                  f"replacing {n} by an identical function ({label}) on {date_iso} changes {c} ({d[c][0]}: {d[c][1]})")
        # the same reform passed as list element, as dict entry, or under another Python name must give the same results
        ref_label = "perturbed-list"
        for label in ("perturbed-dict", "perturbed-renamed"):
            if ref_label in perturbed_results and label in perturbed_results:
                dd = diff_nodes(perturbed_results[ref_label], perturbed_results[label], nodes)
                for c in sorted(dd)[:5]:
                    out.violation(f"function:{label}-differs-from-list-form:{n}", {**case, "column": c},
                                  f"replacing {n} on {date_iso}: column {c} differs between the list form and the {label} form of the same reform ({dd[c][0]}: {dd[c][1]})")
    out.sample({"date": date_iso, "rules": rules[:4]}, limit=1)
    return out.dump()


FILE_REFORMS = [
    ("kindergeld_m", "def kindergeld_m(kindergeld_anz_ansprüche: int) -> float:\n    return kindergeld_anz_ansprüche * 300.0\n"),
    ("soli_st_y_sn", "def soli_st_y_sn(eink_st_y_sn: float) -> float:\n    return eink_st_y_sn * 0.07\n"),
    ("kindergeld_m", "def kindergeld_m(kindergeld_anz_ansprüche: int) -> float:\n    return kindergeld_anz_ansprüche * 111.0\n"),
]


def task_file_reforms(arg):
    """The same reform handed over as the path of a Python file (rewritten between calls) and as a function object must agree."""
    import pathlib
    import shutil
    import tempfile

    date_iso, names = arg
    out = Partial()
    year = int(date_iso[:4])
    df = popgen.frame(popgen.combined(names, year))
    p, f = harness.env(date_iso)
    try:
        nodes, dag, fn = graph_info(date_iso, df.columns, f)
    except Exception:  # noqa: BLE001
        return out.dump()
    d = pathlib.Path(tempfile.mkdtemp(prefix="verif_c06_"))
    try:
        path = d / "reform.py"
        for k, (name, src) in enumerate(FILE_REFORMS):
            path.write_text(src, encoding="utf-8")
            ns = {}
            exec(src, ns)  # noqa: S102
            out.state((date_iso[:4], "file-reform", k))
            try:
                via_file = run_api(df, p, [f, path], nodes)
                via_object = run_api(df, p, [f, {name: ns[name]}], nodes)
            except Exception as e:  # noqa: BLE001
                if sim.known_crash(date_iso, e):
                    out.count("sims_skipped_known_C08_crash")
                else:
                    out.violation(f"function:file-reform-raises:{name}", {"date": date_iso, "rule": name, "step": k}, repr(e)[:300])
                continue
            out.step(2)
            dd = diff_nodes(via_object, via_file, nodes)
            for c in sorted(dd)[:5]:
                out.violation(f"function:file-form-differs-from-object-form:{name}", {"date": date_iso, "rule": name, "step": k, "column": c},
                              f"reform of {name} given as a file path (file rewritten {k} times before) differs from the same function given as an object in column {c} ({dd[c][0]}: {dd[c][1]})")
    finally:
        shutil.rmtree(d, ignore_errors=True)
    return out.dump()


def renamed(func):
    func.__name__ = "verif_renamed_replacement"
    func.__qualname__ = "verif_renamed_replacement"
    return func


def replay(case):
    if "group" in case:
        p = task_params((case["date"], case["households"], [case["group"]]))
    elif "rule" in case:
        p = task_functions((case["date"], case["households"], [case["rule"]]))
    else:
        return True, "re-run the check"
    return not p["violations"], "; ".join(x[2] for x in p["violations"][:3])


def run(tier):
    rep = Reporter("C06", tier)
    thorough = tier == "thorough"
    dates = [d.isoformat() for d in (popgen.d15() if thorough else popgen.quick_dates(3))]
    pops = [POP, POP2] if thorough else [POP]
    ptasks = [(d, pop, [g]) for d in dates for pop in pops for g in INTERNAL_PARAMS_GROUPS]
    for part in harness.pmap(task_params, harness.rotate(ptasks)):
        rep.merge(part)
    for part in harness.pmap(task_aliasing, [d.isoformat() for d in popgen.d15()]):
        rep.merge(part)
    fdates = dates if thorough else dates[1:2]
    ftasks = []
    for d in fdates:
        _, f = harness.env(d)
        for pop in pops:
            df = popgen.frame(popgen.combined(pop, int(d[:4])))
            try:
                nodes = sim.all_nodes(d, tuple(df.columns))
            except Exception:  # noqa: BLE001
                continue
            rules = harness.rotate([n for n in nodes if n in f])
            for k in range(0, len(rules), 5):
                ftasks.append((d, pop, rules[k : k + 5]))
    for part in harness.pmap(task_functions, harness.rotate(ftasks)):
        rep.merge(part)
    for part in harness.pmap(task_file_reforms, [(d, POP) for d in dates]):
        rep.merge(part)
    rep.bound = {"dates": dates, "function_dates": fdates, "populations": pops, "groups": len(INTERNAL_PARAMS_GROUPS)}
    rep.assumptions = ["users(g) = rules with a g_params argument or whose params_key_for_rounding is g; allowed = users and their descendants in the DAG",
                       "a perturbed run that raises (e.g. perturbed integer used as a key) is counted, not judged"]
    return rep.finish(
        "(a) every parameter group x dates x populations x {all numeric leaves perturbed, floats only, rounding bases doubled}: only users(g) "
        "and their descendants may change (non-vacuity per group reported); (b) every policy rule in the graph replaced by an identical clone "
        "(as dict entry and as list element), by a same-signature wrapper, and by a perturbed wrapper: identical replacements change nothing, the "
        "perturbed one only the rule's descendants; (c) a deep copy of params changes nothing; all comparisons bit-exact on all nodes"
    )
