"""C18 - statutory piecewise schedules are well-formed and evaluated exactly."""
from __future__ import annotations

import datetime
from fractions import Fraction

import numpy as np

from mc import harness
from mc.evidence import Partial, Reporter
from mc.ref import params as RP
import _gettsim.policy_environment as pe
from _gettsim.piecewise_functions import piecewise_polynomial

INF = float("inf")


def schedule_versions():
    """(group, param, date) for every schedule of type piecewise_* and every date it can change."""
    out = []
    for g in RP.groups():
        rg = RP.raw_group(g)
        sched = [p for p, spec in rg.items() if isinstance(spec, dict) and str(spec.get("type", "")).startswith("piecewise")]
        allkeys = sorted({k for p in sched for k in RP._keys(g, p)})
        for p in sched:
            prev = None
            for k in allkeys:
                try:
                    raw = RP.resolve(g, p, k)
                except RP.Absent:
                    continue
                canon = repr(sorted((str(a), repr(b)) for a, b in raw.items()))
                if canon != prev:
                    out.append((g, p, k.isoformat()))
                    prev = canon
    return out


def impl_arrays(g, p, d):
    raw = pe._load_parameter_group_from_yaml(d, g, parameters=[p])
    parsed = pe._parse_piecewise_parameters(raw)
    return parsed[p]


def _ref_eval(s: RP.Schedule, thr_float, x: float) -> Fraction:
    """Exact value; the piece is chosen with the thresholds as floats (a threshold belongs to the piece above)."""
    i = 0
    for j in range(s.m):
        if x >= thr_float[j]:
            i = j
    if s.lower[i] == -INF:
        return s.intercepts[i]
    xf = Fraction(x)
    inc = xf - s.lower[i]
    return s.intercepts[i] + sum(s.rates[k][i] * inc ** (k + 1) for k in range(s.degree))


def _close(a: float, b: Fraction, rtol=1e-9):
    bf = float(b)
    return a == bf or abs(a - bf) <= rtol * max(1.0, abs(a), abs(bf))


def _points(thr, dense=False):
    pts = set()
    fin = [t for t in thr if abs(t) != INF]
    for t in fin:
        for x in (t, np.nextafter(t, -INF), np.nextafter(t, INF), t - 0.01, t + 0.01, t - 1.0, t + 1.0):
            pts.add(float(x))
    edges = [fin[0] - 1000.0, *fin, fin[-1] + 1000.0] if fin else [-1000.0, 1000.0]
    for a, b in zip(edges[:-1], edges[1:]):
        for q in (0.25, 0.5, 0.75, 0.1, 0.9):
            pts.add(a + q * (b - a))
    pts.update([-1e7, 1e7, 0.0, -0.01, 0.01])
    return sorted(pts)


def task_schedule(arg):
    g, p, ds, dense = arg
    out = Partial()
    d = datetime.date.fromisoformat(ds)
    ver = f"{g}.{p}@{ds}"
    case = {"group": g, "param": p, "date": ds}
    try:
        arr = impl_arrays(g, p, d)
        s = RP.Schedule(RP.resolve(g, p, d), p)
    except Exception as e:  # noqa: BLE001
        out.violation(f"schedule:{g}.{p}:cannot-build:{type(e).__name__}", case, repr(e))
        return out.dump()
    thr = np.asarray(arr["thresholds"], dtype=float)
    rates = np.asarray(arr["rates"], dtype=float)
    icpt = np.asarray(arr["intercepts_at_lower_thresholds"], dtype=float)
    m = len(icpt)
    # ---- well-formedness
    wf = []
    if not (len(thr) == m + 1 and rates.shape == (s.degree, m)):
        wf.append(f"shapes thresholds={thr.shape} rates={rates.shape} intercepts={icpt.shape}")
    if not (thr[0] == -INF and thr[-1] == INF):
        wf.append(f"does not cover the real line: {thr[0]} .. {thr[-1]}")
    if not np.all(np.diff(thr) > 0):
        wf.append(f"thresholds not strictly increasing: {thr.tolist()}")
    if np.isnan(thr).any() or np.isnan(rates).any() or np.isnan(icpt).any():
        wf.append("NaN in arrays")
    for w in wf:
        out.violation(f"schedule:{g}.{p}:malformed", case, f"{ver}: {w}")
    refarr = s.as_arrays()
    for key in ("thresholds", "rates", "intercepts_at_lower_thresholds"):
        a, b = np.asarray(arr[key], dtype=float), refarr[key]
        if a.shape != b.shape or not np.all((a == b) | (np.abs(a - b) <= 1e-9 * np.maximum(1.0, np.abs(b)))):
            out.violation(f"schedule:{g}.{p}:{key}-differ-from-law", case, f"{ver}: environment {a.tolist()} exact {b.tolist()}")
    if wf:
        return out.dump()
    for i in range(m):
        out.state((g, p, ds, i))
    # ---- exact evaluation
    pts = _points(thr.tolist())
    if dense and (g, p) == ("eink_st", "eink_st_tarif"):
        pts = sorted(set(pts) | {float(x) for x in range(0, 300001)})
    elif (g, p) == ("eink_st", "eink_st_tarif"):
        pts = sorted(set(pts) | {float(x) for x in range(0, 300001, 7)})
    elif (g, p) == ("soli_st", "soli_st"):
        pts = sorted(set(pts) | {float(x) for x in range(0, 60001, 1 if dense else 53)})
    prev = None
    for x in pts:
        try:
            got = float(piecewise_polynomial(x, thr, rates, icpt))
        except Exception as e:  # noqa: BLE001
            out.violation(f"schedule:{g}.{p}:evaluation-raises:{type(e).__name__}", {**case, "x": x}, repr(e))
            break
        out.step()
        want = _ref_eval(s, thr, x)
        if not _close(got, want):
            out.violation(f"schedule:{g}.{p}:value", {**case, "x": x}, f"{ver}: f({x!r}) = {got!r}, exact {float(want)!r}")
            break
        if (g, p) in (("eink_st", "eink_st_tarif"), ("soli_st", "soli_st")) and prev is not None and got < prev[1] - 1e-9 * max(1.0, abs(prev[1])):
            out.violation(f"schedule:{g}.{p}:decreasing", {**case, "x": x}, f"{ver}: f({prev[0]})={prev[1]} > f({x})={got}")
            break
        prev = (x, got)
    # ---- per-interval proofs from the coefficients actually in the environment
    F = Fraction  # noqa: N806
    tl = [F(t) if abs(t) != INF else t for t in thr.tolist()]
    R = [[F(float(r)) for r in row] for row in rates.tolist()]  # noqa: N806
    C = [F(float(c)) for c in icpt.tolist()]  # noqa: N806

    # ---- scaled rates (`rates_multiplier`): all rates times mu, intercepts rebuilt from the first one by accumulating whole pieces; in
    # particular mu = 0 gives the first intercept everywhere and the scaled part is linear in mu
    def ref_scaled(x, mu):
        b = 0
        for j in range(m):
            if x >= thr[j]:
                b = j
        val = C[0]
        for j in range(1, b):
            inc = tl[j + 1] - tl[j]
            val += sum(mu * R[k][j] * inc ** (k + 1) for k in range(len(R)))
        if b > 0:
            inc = F(x) - tl[b]
            val += sum(mu * R[k][b] * inc ** (k + 1) for k in range(len(R)))
        return val

    for mu in (0, 0.0, -0.0, np.float64(0.0), 1, 1.0, 0.5, 2, 0.3721, np.float64(0.25)):
        for x in _points(thr.tolist()):
            try:
                got = float(piecewise_polynomial(x, thr, rates, icpt, rates_multiplier=mu))
            except Exception as e:  # noqa: BLE001
                out.violation(f"schedule:{g}.{p}:scaled-evaluation-raises:{type(e).__name__}", {**case, "x": x, "rates_multiplier": repr(mu)}, repr(e))
                break
            out.step()
            want = ref_scaled(x, F(float(mu)))
            if not _close(got, want):
                out.violation(f"schedule:{g}.{p}:scaled-value", {**case, "x": x, "rates_multiplier": repr(mu)},
                              f"{ver}: rates scaled by {mu!r}: f({x!r}) = {got!r}, exact {float(want)!r}")
                break

    def val_end(i):  # value of piece i at its upper threshold
        if tl[i] == -INF:
            return C[i]
        inc = tl[i + 1] - tl[i]
        return C[i] + sum(R[k][i] * inc ** (k + 1) for k in range(len(R)))

    def deriv(i, at_upper):
        if tl[i] == -INF:
            return R[0][i] if not any(R[k][i] for k in range(1, len(R))) else None
        inc = (tl[i + 1] - tl[i]) if at_upper else F(0)
        return sum((k + 1) * R[k][i] * inc**k for k in range(len(R)))

    if (g, p) == ("eink_st", "eink_st_tarif"):
        top = R[0][m - 1]
        if any(R[k][0] != 0 for k in range(len(R))) or C[0] != 0:
            out.violation(f"schedule:{g}.{p}:not-zero-below-allowance", case, f"{ver}: piece 0 rates {[float(R[k][0]) for k in range(len(R))]} intercept {float(C[0])}")
        for i in range(m - 1):
            jump = val_end(i) - C[i + 1]
            if abs(jump) > F(1, 10**6):
                out.violation(f"schedule:{g}.{p}:discontinuous", {**case, "threshold": float(tl[i + 1])}, f"{ver}: jump {float(jump)} at {float(tl[i + 1])}")
        for i in range(m):
            lo, hi = deriv(i, False), (deriv(i, True) if i < m - 1 else deriv(i, False))
            if i == m - 1 and any(R[k][i] != 0 for k in range(1, len(R))):
                out.violation(f"schedule:{g}.{p}:top-piece-not-linear", case, ver)
            if lo is None or lo < 0 or hi < 0:
                out.violation(f"schedule:{g}.{p}:negative-marginal-rate", {**case, "piece": i}, f"{ver}: piece {i} marginal {lo}..{hi}")
            elif hi < lo - F(1, 10**12):
                out.violation(f"schedule:{g}.{p}:not-convex-within-piece", {**case, "piece": i}, f"{ver}: piece {i} marginal {float(lo)} -> {float(hi)}")
            elif max(lo, hi) > top + F(1, 10**9):
                out.violation(f"schedule:{g}.{p}:marginal-above-top-rate", {**case, "piece": i}, f"{ver}: piece {i} marginal {float(max(lo, hi))} > top {float(top)}")
            if i < m - 1 and lo is not None:
                nxt = deriv(i + 1, False)
                if nxt is not None and hi > nxt + F(1, 10**6):
                    out.violation(f"schedule:{g}.{p}:not-convex-at-threshold", {**case, "threshold": float(tl[i + 1])},
                                  f"{ver}: marginal rate falls from {float(hi)} to {float(nxt)} at {float(tl[i + 1])}")
            out.count("interval_obligations")
    if (g, p) == ("soli_st", "soli_st"):
        nominal = R[0][m - 1]
        for i in range(m - 1):
            jump = val_end(i) - C[i + 1]
            if abs(jump) > F(1, 10**6):
                out.violation(f"schedule:{g}.{p}:discontinuous", {**case, "threshold": float(tl[i + 1])}, f"{ver}: jump {float(jump)}")
        for i in range(m):
            if R[0][i] < 0:
                out.violation(f"schedule:{g}.{p}:decreasing-piece", {**case, "piece": i}, ver)
            # soli(x) - nominal*x is linear on each piece: check both ends (and the slope of the last piece)
            ends = []
            if tl[i] != -INF:
                ends.append((tl[i], C[i]))
            if tl[i + 1] != INF:
                ends.append((tl[i + 1], val_end(i)))
            for x, v in ends:
                if x >= 0 and v > nominal * x + F(1, 100) + F(1, 10**9):
                    out.violation(f"schedule:{g}.{p}:exceeds-nominal-rate", {**case, "x": float(x)}, f"{ver}: soli({float(x)})={float(v)} > {float(nominal)}*x+0.01")
            if tl[i] == -INF and (C[i] != 0 or R[0][i] != 0):
                out.violation(f"schedule:{g}.{p}:nonzero-for-negative-tax", case, ver)
            out.count("interval_obligations")
    out.outcome((g, p, m, s.degree))
    out.sample({"schedule": ver, "pieces": m, "points": len(pts)}, limit=1)
    return out.dump()


def task_rules(arg):
    """The tariff and the surcharge through the real rule functions on the environment of the date."""
    ds, dense = arg
    out = Partial()
    from _gettsim.taxes.eink_st import _eink_st_tarif
    from _gettsim.taxes.soli_st import _soli_st_tarif

    d = datetime.date.fromisoformat(ds)
    p, _ = harness.env(ds)
    for g, pn, fn, args in (
        ("eink_st", "eink_st_tarif", _eink_st_tarif, lambda x, p=p: (x, p["eink_st"])),
        ("soli_st", "soli_st", _soli_st_tarif, lambda x, p=p: (x, p["soli_st"])),
    ):
        try:
            s = RP.Schedule(RP.resolve(g, pn, d), pn)
        except RP.Absent:
            continue
        thr = np.asarray(p[g][pn]["thresholds"], dtype=float)
        pts = _points(thr.tolist())
        for x in pts:
            got = float(fn(*args(x)))
            out.step()
            want = _ref_eval(s, thr, x)
            if not _close(got, want):
                out.violation(f"rule:{fn.__name__}:value", {"date": ds, "x": x}, f"{fn.__name__}({x!r}) on {ds} = {got!r}, exact {float(want)!r}")
                break
        out.state(("rule", fn.__name__, ds))
    return out.dump()


def replay(case):
    d = datetime.date.fromisoformat(case["date"])
    g, p = case["group"], case["param"]
    arr = impl_arrays(g, p, d)
    s = RP.Schedule(RP.resolve(g, p, d), p)
    thr = np.asarray(arr["thresholds"], dtype=float)
    if "rates_multiplier" in case:
        part = task_schedule((g, p, case["date"], False))
        v = [x for x in part["violations"] if "scaled" in x[0]]
        return not v, "; ".join(x[2] for x in v[:2])
    if "x" in case:
        x = float(case["x"])
        got = float(piecewise_polynomial(x, thr, arr["rates"], arr["intercepts_at_lower_thresholds"]))
        want = _ref_eval(s, thr, x)
        return _close(got, want), f"f({x!r}) = {got!r}, exact {float(want)!r}"
    return True, "structural finding: re-run the check"


def run(tier):
    rep = Reporter("C18", tier)
    dense = tier == "thorough"
    vers = schedule_versions()
    for part in harness.pmap(task_schedule, harness.rotate([(g, p, ds, dense) for g, p, ds in vers])):
        rep.merge(part)
    dates = sorted({ds for g, p, ds in vers if g in ("eink_st", "soli_st") and ds >= "2002-01-01"})
    for part in harness.pmap(task_rules, [(ds, dense) for ds in dates]):
        rep.merge(part)
    rep.bound = {"schedule_versions": len(vers), "tariff_lattice": "every integer euro 0..300000" if dense else "every 7th euro + all critical points",
                 "rule_dates": len(dates)}
    rep.assumptions = [
        "exact reference schedule built with Fractions from the decimal text of the YAML files (mc/ref/params.py)",
        "'for all real arguments' is decided per interval from the exact coefficients in the environment (a quadratic's derivative is linear, so "
        "both ends of a piece decide monotonicity/convexity of that piece) plus exact evaluation at >= degree+1 interior points, thresholds and +-1 ulp",
    ]
    return rep.finish(
        "every piecewise_* schedule x every date at which its resolved definition changes x every piece (a state) x critical points "
        "(thresholds, +-1 ulp, +-0.01, +-1, interior quantiles, +-1e7, lattice for tariff/soli); real piecewise_polynomial and the real "
        "tariff/surcharge rules vs exact Fractions; per-interval coefficient obligations for tariff (zero below allowance, continuous, "
        "monotone, convex, <= top rate) and surcharge (continuous, monotone, <= nominal rate x tax + 0.01)"
    )
