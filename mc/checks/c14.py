"""C14 - simulation is pure, deterministic and independent of process history.

Explicit-state exploration of API-call histories.  Every history is executed in a child
forked from a pristine parent (gettsim imported, nothing called); after every call the
caller-owned objects must be unchanged and the call's result must equal the result of the
same call in a fresh interpreter (one subprocess per distinct call descriptor).
"""
from __future__ import annotations

import copy
import datetime
import hashlib
import itertools
import json
import os
import subprocess
import sys
import warnings

import numpy as np
import pandas as pd

from mc import harness, popgen
from mc.evidence import Reporter
from mc.ref import params as RP

VERIF = os.path.dirname(os.path.dirname(os.path.dirname(os.path.abspath(__file__))))

# ------------------------------------------------------------------ digests
def _h(x):
    return hashlib.sha1(x if isinstance(x, bytes) else str(x).encode("utf-8")).hexdigest()[:16]


def digest_series(s):
    v = s.to_numpy() if hasattr(s, "to_numpy") else np.asarray(s)
    if v.dtype.kind == "O":
        body = repr(v.tolist()).encode("utf-8")
    else:
        body = np.ascontiguousarray(v).tobytes()
    idx = repr(list(s.index)) if hasattr(s, "index") else ""
    return _h(str(v.dtype).encode() + b"|" + body + b"|" + idx.encode())


def digest_frame(df):
    if isinstance(df, pd.DataFrame):
        return _h("|".join(f"{c}:{digest_series(df[c])}" for c in df.columns))
    if isinstance(df, dict):
        return _h("|".join(f"{c}:{digest_series(df[c])}" for c in df))
    return _h(repr(df))


def digest_functions(f):
    import pathlib

    if isinstance(f, pathlib.Path):
        return _h(f.read_text(encoding="utf-8"))
    if isinstance(f, dict):
        return _h(sorted((k, v.__module__, v.__name__, _h(v.__code__.co_code), repr(sorted((getattr(v, "__info__", {}) or {}).items(), key=str))) for k, v in f.items()))
    if isinstance(f, list):
        return _h([digest_functions(x) for x in f])
    return _h(repr(f))


def digest_params(p):
    return RP.digest(p, skip_datum=False)


def process_state_digest():
    """Digest of the process-global state a later call could observe."""
    parts = []
    for name in sorted(sys.modules):
        if not (name == "_gettsim" or name.startswith("_gettsim.") or name == "gettsim"):
            continue
        if name.startswith("_gettsim_tests"):
            continue
        mod = sys.modules[name]
        for k in sorted(vars(mod)):
            if k.startswith("__"):
                continue
            v = vars(mod)[k]
            if isinstance(v, type(sys)):
                parts.append((name, k, "module", v.__name__))
            elif callable(v) and hasattr(v, "__code__"):
                info = getattr(v, "__info__", None)
                parts.append((name, k, "fn", _h(v.__code__.co_code), repr(sorted(info.items(), key=str)) if isinstance(info, dict) else "", sorted(vars(v)) if hasattr(v, "__dict__") else ""))
            elif isinstance(v, (int, float, str, bool, tuple, type(None))):
                parts.append((name, k, "val", repr(v)))
            elif isinstance(v, dict):
                parts.append((name, k, "dict", len(v), _h(repr(sorted((str(a), (len(b) if hasattr(b, "__len__") else repr(b))) for a, b in v.items())))))
            elif isinstance(v, (list, set)):
                parts.append((name, k, "seq", len(v)))
    parts.append(("numpy", "err", repr(sorted(np.geterr().items()))))
    parts.append(("warnings", "filters", len(warnings.filters)))
    parts.append(("pandas", "mode", repr(pd.get_option("mode.chained_assignment", None)) if False else ""))
    return _h(repr(parts))


# ------------------------------------------------------------------ actions
POPS = {
    "fam": ["couple_kids", "pensioners"],
    "mix": ["single_parent", "unemployed", "self_employed"],
}
DATES = ["2019-07-01", "2023-01-01", "2023-07-01", "2024-01-01"]


def actions(tier):
    acts = []
    for d in DATES:
        acts.append({"op": "env", "date": d})
    acts.append({"op": "env", "date": 2021})
    # two days of one month with a change date between them (elterngeld 2012-09-18), and two days of one year around a mid-year change
    acts.append({"op": "env", "date": "2012-09-01"})
    acts.append({"op": "env", "date": "2012-09-20"})
    acts.append({"op": "env", "date": "2019-06-30"})
    acts.append({"op": "env", "date": 2023})
    acts.append({"op": "sim", "date": "2023-07-01", "pop": "fam", "targets": "default", "rounding": True, "debug": False, "form": "frame"})
    acts.append({"op": "sim", "date": "2023-01-01", "pop": "mix", "targets": "default", "rounding": True, "debug": False, "form": "frame"})
    acts.append({"op": "sim", "date": "2023-01-01", "pop": "fam-variant", "targets": "default", "rounding": True, "debug": False, "form": "frame"})
    acts.append({"op": "load_functions", "date": "2020-01-01"})
    for d in DATES[:2] if tier == "quick" else DATES:
        acts.append({"op": "sim", "date": d, "pop": "fam", "targets": "default", "rounding": True, "debug": False, "form": "frame"})
    acts.append({"op": "sim", "date": "2023-01-01", "pop": "mix", "targets": "all", "rounding": True, "debug": False, "form": "frame"})
    acts.append({"op": "sim", "date": "2023-01-01", "pop": "fam", "targets": "default", "rounding": False, "debug": False, "form": "frame"})
    acts.append({"op": "sim", "date": "2023-01-01", "pop": "fam", "targets": "ids", "rounding": True, "debug": True, "form": "frame"})
    acts.append({"op": "sim", "date": "2023-01-01", "pop": "fam", "targets": "default", "rounding": True, "debug": False, "form": "dict-needs-conversion"})
    acts.append({"op": "sim", "date": "2019-07-01", "pop": "mix", "targets": "default", "rounding": True, "debug": False, "form": "dict-needs-conversion"})
    acts.append({"op": "sim", "date": "2023-01-01", "pop": "fam", "targets": "default", "rounding": True, "debug": False, "form": "frame-needs-conversion"})
    acts.append({"op": "sim", "date": "2023-01-01", "pop": "fam", "targets": "single", "rounding": True, "debug": False, "form": "series-index"})
    acts.append({"op": "reform", "date": "2023-01-01", "pop": "fam", "group": "kindergeld", "how": "copy"})
    acts.append({"op": "reform", "date": "2023-01-01", "pop": "fam", "group": "sozialv_beitr", "how": "copy"})
    acts.append({"op": "reform_inplace_then_discard", "date": "2023-01-01", "pop": "fam"})
    acts.append({"op": "reform_function", "date": "2023-01-01", "pop": "fam", "rule": "kindergeld_m"})
    acts.append({"op": "reform_function_wrapped", "date": "2023-01-01", "pop": "fam", "rule": "kindergeld_m"})
    acts.append({"op": "reform_function_wrapped", "date": "2023-01-01", "pop": "fam", "rule": "ges_rentenv_beitr_arbeitnehmer_m"})
    # a reform handed over as the path of a Python file; the user rewrites the file between two calls
    acts.append({"op": "reform_file", "date": "2023-01-01", "pop": "fam", "variant": "kindergeld"})
    acts.append({"op": "reform_file", "date": "2023-01-01", "pop": "fam", "variant": "soli"})
    acts.append({"op": "user_spec", "date": "2023-01-01", "pop": "fam"})
    acts.append({"op": "vectorize", "rules": ["kindergeld_m_ab_2023", "ges_rente_mit_grundrente_m", "eink_st_y_sn_kindergeld_oder_kinderfreib"]})
    acts.append({"op": "vectorize", "rules": ["anteil_entgeltp_ost", "arbeitsl_geld_2_m_bg", "_ges_krankenv_beitr_midijob_arbeitnehmer_m_residuum"]})
    acts.append({"op": "vectorize_all"})
    acts.append({"op": "synthetic", "year": 2023})
    acts.append({"op": "failing_sim", "date": "2023-01-01"})
    if tier == "thorough":
        acts.append({"op": "sim", "date": "2024-01-01", "pop": "mix", "targets": "all", "rounding": False, "debug": True, "form": "frame"})
        acts.append({"op": "reform", "date": "2019-07-01", "pop": "mix", "group": "eink_st", "how": "copy"})
    return acts


def _frame(pop, date_iso):
    if pop == "fam-variant":
        # same shape, same ids, same columns as "fam" - only amounts differ (a cache keyed by shape / ids / columns must not confuse them)
        rows = popgen.combined(POPS["fam"], int(str(date_iso)[:4]))
        for r in rows:
            if r["bruttolohn_m"] > 0:
                r["bruttolohn_m"] = r["bruttolohn_m"] + 640.0
            r["bruttokaltmiete_m_hh"] = 950.0
        return popgen.frame(rows)
    return popgen.frame(popgen.combined(POPS[pop], int(str(date_iso)[:4])))


def _targets(kind, df, f):
    from _gettsim.config import DEFAULT_TARGETS
    from mc import sim

    if kind == "default":
        return None
    if kind == "all":
        return sim.node_list(f, tuple(df.columns))[0]
    if kind == "ids":
        return ["fg_id", "bg_id", "eg_id", "ehe_id", "sn_id", "wthh_id"]
    if kind == "single":
        return "kindergeld_m"
    return list(DEFAULT_TARGETS)


class Ctx:
    """What a user session holds on to between calls."""

    def __init__(self):
        self.envs = {}

    def env(self, date):
        from gettsim import set_up_policy_environment

        key = str(date)
        if key not in self.envs:
            self.envs[key] = set_up_policy_environment(date)
        return self.envs[key]


def execute(a, ctx):
    """Run one API call.  Returns (result digest, list of purity complaints)."""
    import gettsim
    from gettsim import compute_taxes_and_transfers, set_up_policy_environment

    complaints = []
    op = a["op"]
    with warnings.catch_warnings():
        warnings.simplefilter("ignore")
        if op == "env":
            p, f = set_up_policy_environment(a["date"])
            ctx.envs[str(a["date"])] = (p, f)
            return _h(digest_params(p) + digest_functions(f)), complaints
        if op == "load_functions":
            from _gettsim.policy_environment import load_functions_for_date

            f = load_functions_for_date(datetime.date.fromisoformat(a["date"]))
            return digest_functions(f), complaints
        if op == "vectorize":
            from _gettsim.functions_loader import load_internal_functions
            from _gettsim.vectorization import make_vectorizable

            fs = load_internal_functions()
            outs = []
            for r in a["rules"]:
                try:
                    g = make_vectorizable(fs[r], "numpy")
                    outs.append((r, g.__name__))
                except Exception as e:  # noqa: BLE001
                    outs.append((r, type(e).__name__))
            return _h(outs), complaints
        if op == "vectorize_all":
            from _gettsim.functions_loader import load_internal_functions
            from _gettsim.vectorization import make_vectorizable

            n = 0
            for r, fn in sorted(load_internal_functions().items()):
                try:
                    make_vectorizable(fn, "numpy")
                    n += 1
                except Exception:  # noqa: BLE001
                    pass
            return _h(n), complaints
        if op == "synthetic":
            from gettsim import create_synthetic_data

            df = create_synthetic_data(n_adults=2, n_children=1, specs_constant_over_households={"alter": [40, 38, 5]}, policy_year=a["year"]) \
                if False else create_synthetic_data(n_adults=1, n_children=1, policy_year=a["year"])
            return digest_frame(df[sorted(df.columns)]), complaints
        if op == "failing_sim":
            p, f = ctx.env(a["date"])
            df = _frame("fam", a["date"]).drop(columns=["bruttolohn_m"])
            try:
                compute_taxes_and_transfers(df, p, f, targets=None)
                return "no-error", complaints
            except Exception as e:  # noqa: BLE001
                return _h(type(e).__name__), complaints
        # ---- calls that take caller-owned data / params / functions
        date = a["date"]
        p, f = ctx.env(date)
        df = _frame(a["pop"], date)
        funcs = f
        params = p
        kwargs = {}
        if op == "sim":
            form = a["form"]
            data = df
            if form == "dict-needs-conversion":
                data = {c: df[c].copy() for c in df.columns}
                data["bruttolohn_m"] = data["bruttolohn_m"].astype(int)
                data["kind"] = data["kind"].astype(int)
                data["alter"] = data["alter"].astype(float)
            elif form == "frame-needs-conversion":
                data = df.copy()
                data["bruttolohn_m"] = data["bruttolohn_m"].astype(int)
                data["kind"] = data["kind"].astype(float)
            elif form == "series-index":
                data = df.copy()
                data.index = [f"r{i}" for i in range(len(df))][::-1]
            targets = _targets(a["targets"], df, f)
            kwargs = dict(rounding=a["rounding"], debug=a["debug"])
        elif op == "reform":
            params = dict(p)
            params[a["group"]] = copy.deepcopy(p[a["group"]])
            g = params[a["group"]]
            if a["group"] == "kindergeld":
                g["kindergeld"] = g["kindergeld"] + 50 if not isinstance(g["kindergeld"], dict) else {k: v + 50 for k, v in g["kindergeld"].items()}
            elif a["group"] == "sozialv_beitr":
                g["beitr_satz"]["ges_rentenv"] = g["beitr_satz"]["ges_rentenv"] + 0.01
            else:
                g["eink_st_tarif"]["rates"] = g["eink_st_tarif"]["rates"] * 1.05
            data, targets = df, None
        elif op == "reform_inplace_then_discard":
            # the user edits the dictionaries returned by set_up_policy_environment in place (deeply nested leaves), simulates, and throws
            # that environment away; later calls build their environment anew
            ctx.envs.pop(str(date), None)
            from gettsim import set_up_policy_environment as _setup

            params, funcs = _setup(date)

            def bump(x, depth=0):
                if isinstance(x, dict):
                    for k in list(x):
                        if k in ("datum", "rounding"):
                            continue
                        v = x[k]
                        if isinstance(v, dict):
                            bump(v, depth + 1)
                        elif isinstance(v, np.ndarray) and v.dtype.kind == "f":
                            v *= 1.05
                        elif isinstance(v, float) and np.isfinite(v):
                            x[k] = v * 1.05
                        elif isinstance(v, int) and not isinstance(v, bool) and depth >= 1:
                            x[k] = v + 1

            for g in ("sozialv_beitr", "wohngeld", "kindergeld", "arbeitsl_geld_2", "eink_st", "ges_rente"):
                bump(params[g])
            p, f = params, funcs
            data, targets = df, None
        elif op == "reform_function":
            def kindergeld_m(kindergeld_anz_ansprüche: int) -> float:
                return kindergeld_anz_ansprüche * 333.0

            funcs = [f, kindergeld_m]
            data, targets = df, None
        elif op == "reform_function_wrapped":
            import functools

            orig = f[a["rule"]]

            @functools.wraps(orig)
            def reformed(*args, **kw):
                return orig(*args, **kw) * 1.1

            funcs = [f, {a["rule"]: reformed}]
            data, targets = df, None
        elif op == "reform_file":
            import pathlib
            import tempfile

            d = pathlib.Path(tempfile.gettempdir()) / f"verif_c14_reform_{os.getpid()}"
            d.mkdir(exist_ok=True)
            path = d / "reform.py"
            if a["variant"] == "kindergeld":
                path.write_text("def kindergeld_m(kindergeld_anz_ansprüche: int) -> float:\n    return kindergeld_anz_ansprüche * 300.0\n", encoding="utf-8")
            else:
                path.write_text("def soli_st_y_sn(eink_st_y_sn: float) -> float:\n    return eink_st_y_sn * 0.07\n", encoding="utf-8")
            funcs = [f, path]
            data, targets = df, None
        elif op == "user_spec":
            data, targets = df, ["alter_max_hh", "bruttolohn_m_hh"]
            kwargs = dict(aggregate_by_group_specs={"alter_max_hh": {"source_col": "alter", "aggr": "max"}})
        before = (digest_frame(data), digest_params(params), digest_functions(funcs), repr(targets), digest_params(p), digest_functions(f))
        res = compute_taxes_and_transfers(data, params, funcs, targets=targets, **kwargs)
        after = (digest_frame(data), digest_params(params), digest_functions(funcs), repr(targets), digest_params(p), digest_functions(f))
        for nm, b, c in zip(("data", "params", "functions", "targets", "session params", "session functions"), before, after):
            if b != c:
                complaints.append(f"caller's {nm} modified by the call")
        return digest_frame(res), complaints


def key(a):
    return json.dumps(a, sort_keys=True, ensure_ascii=False)


# ------------------------------------------------------------------ fresh-interpreter reference
def fresh_digest(a, hashseed="0"):
    env = dict(os.environ, PYTHONPATH=VERIF, PYTHONHASHSEED=hashseed)
    r = subprocess.run([sys.executable, "-m", "mc.checks.c14", "--fresh", key(a)], capture_output=True, text=True, cwd=VERIF, env=env)
    for line in r.stdout.splitlines():
        if line.startswith("DIGEST "):
            return json.loads(line[7:])
    return {"error": (r.stderr or r.stdout)[-400:]}


def _cleanup_reform_dir():
    import pathlib
    import shutil
    import tempfile

    shutil.rmtree(pathlib.Path(tempfile.gettempdir()) / f"verif_c14_reform_{os.getpid()}", ignore_errors=True)


def run_history(hist):
    """Executed in a forked child of the pristine parent.  Returns per-step observations."""
    harness.env.cache_clear()
    ctx = Ctx()
    obs = []
    s0 = process_state_digest()
    for a in hist:
        try:
            dig, complaints = execute(a, ctx)
        except Exception as e:  # noqa: BLE001
            dig, complaints = f"raises:{type(e).__name__}:{str(e)[:80]}", []
        obs.append({"digest": dig, "complaints": complaints, "state": process_state_digest()})
    _cleanup_reform_dir()
    return {"history": hist, "initial_state": s0, "steps": obs}


def _child(hist):
    return run_history(hist)


def replay(case):
    hist = case["history"]
    import multiprocessing

    if "PYTHONHASHSEED" in case:
        a, b = (fresh_digest(hist[-1], hs) for hs in case["PYTHONHASHSEED"])
        return a.get("digest") == b.get("digest"), f"{hist[-1]}: {a} vs {b}"

    ctx = multiprocessing.get_context("fork")
    with ctx.Pool(1, maxtasksperchild=1) as pool:
        res = pool.apply(_child, (hist,))
    fresh = fresh_digest(hist[-1])
    last = res["steps"][-1]
    ok = last["digest"] == fresh.get("digest") and not last["complaints"]
    return ok, f"last call {hist[-1]}: in history {last['digest']} / fresh {fresh.get('digest', fresh)}; complaints {last['complaints']}"


def run(tier):
    import multiprocessing

    rep = Reporter("C14", tier)
    # import every gettsim module up front so that lazy imports do not look like state changes
    import importlib
    import pkgutil

    import _gettsim

    for m in pkgutil.walk_packages(_gettsim.__path__, "_gettsim."):
        if "jax" in m.name or "visualization" in m.name:
            continue
        try:
            importlib.import_module(m.name)
        except Exception:  # noqa: BLE001
            pass
    import gettsim  # noqa: F401

    acts = harness.rotate(actions(tier))
    # reference results, one fresh interpreter per descriptor
    with multiprocessing.get_context("fork").Pool(harness.NPROC) as pool:
        fresh = dict(zip([key(a) for a in acts], pool.map(fresh_digest, acts)))
    for k, v in fresh.items():
        if "digest" not in v:
            print("harness error: fresh reference run failed for", k, v)
            return 2
    # again in fresh interpreters with other string-hash seeds: determinism across processes, independence of set / dict-of-set iteration order
    for hs in (("1", "977") if tier == "quick" else ("1", "977", "31337", "2")):
        with multiprocessing.get_context("fork").Pool(harness.NPROC) as pool:
            again = dict(zip([key(a) for a in acts], pool.starmap(fresh_digest, [(a, hs) for a in acts])))
        for k in fresh:
            rep.step()
            if fresh[k].get("digest") != again[k].get("digest"):
                rep.violation("nondeterministic-across-processes:" + json.loads(k)["op"], {"history": [json.loads(k)], "PYTHONHASHSEED": ["0", hs]},
                              f"{k}: fresh interpreters with PYTHONHASHSEED=0 and ={hs} disagree (values, dtypes, column or row order): {fresh[k]} vs {again[k]}")
    # histories: singles, all ordered pairs, triples over the state-relevant alphabet, repeated calls
    hists = [[a] for a in acts] + [[a, b] for a in acts for b in acts]
    small = [a for a in acts if a["op"] in ("vectorize", "vectorize_all", "reform", "failing_sim", "reform_function_wrapped", "reform_inplace_then_discard", "reform_file") or (a["op"] == "sim" and a["form"] != "frame")][: (6 if tier == "quick" else 9)]
    probe = [a for a in acts if a["op"] == "sim"][:3]
    hists += [[a, b, c] for a in small for b in small for c in probe]
    seen_states = set()
    frontier_states = {}
    ctx = multiprocessing.get_context("fork")
    with ctx.Pool(harness.NPROC, maxtasksperchild=1) as pool:
        for res in pool.imap_unordered(_child, hists, chunksize=1):
            hist = res["history"]
            prev_state = res["initial_state"]
            seen_states.add(prev_state)
            for i, (a, st) in enumerate(zip(hist, res["steps"])):
                rep.step()
                seen_states.add(st["state"])
                rep.state((st["state"], key(a)))
                case = {"history": hist[: i + 1]}
                want = fresh[key(a)]["digest"]
                label = a["op"] + (":" + a.get("form", "") if a["op"] == "sim" else "")
                if st["digest"] != want:
                    prior = "+".join(x["op"] for x in hist[:i]) or "nothing"
                    rep.violation(f"history:{label}-after-{prior}", case,
                                  f"call {key(a)} after {[x['op'] for x in hist[:i]]} gives {st['digest']}, in a fresh process {want}")
                for c in st["complaints"]:
                    rep.violation(f"impure:{label}:{c}", case, f"{key(a)}: {c}")
                if st["state"] != prev_state:
                    frontier_states.setdefault((prev_state, st["state"]), key(a))
                prev_state = st["state"]
            rep.outcome(tuple(s["state"] for s in res["steps"]))
    rep.extra["process_states_seen"] = len(seen_states)
    rep.extra["state_changing_transitions"] = sorted(set(json.loads(v)["op"] for v in frontier_states.values()))
    # a changed process-state digest is not a violation by itself (the property is about results); it tells where histories can matter and
    # is reported so that a reader can see which calls leave traces in the process
    rep.bound = {"actions": len(acts), "histories": len(hists), "depth": 3, "pairs": "all ordered pairs", "triples": f"{len(small)}x{len(small)}x{len(probe)}"}
    rep.assumptions = ["every history runs in a child forked from a parent that has imported gettsim and called nothing; the reference for a call is the same "
                       "descriptor executed alone in a fresh interpreter (subprocess)",
                       "process state digest: code and __info__ of every function in every _gettsim module, registries, config globals, numpy error state, warning filters"]
    return rep.finish(
        "alphabet of API calls (environment set-up in 3 argument forms, function loading, simulations over populations x targets x rounding x debug "
        "x data forms incl. dicts/frames needing type conversion, parameter and function reforms, user aggregation specs, make_vectorizable on single "
        "rules and on all rules, synthetic data, a failing call); all single calls, ALL ordered pairs and triples over the state-relevant calls; "
        "every step compared with the fresh-interpreter result and checked for modified caller-owned objects; process-state digest per step"
    )


if __name__ == "__main__":
    if len(sys.argv) >= 3 and sys.argv[1] == "--fresh":
        a = json.loads(sys.argv[2])
        try:
            dig, complaints = execute(a, Ctx())
        except Exception as e:  # noqa: BLE001
            dig, complaints = f"raises:{type(e).__name__}:{str(e)[:80]}", []
        _cleanup_reform_dir()
        print("DIGEST " + json.dumps({"digest": dig, "complaints": complaints}))
