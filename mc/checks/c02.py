"""C02 - unrelated households do not influence each other; relabelling ids changes only labels."""
from __future__ import annotations

import itertools

import numpy as np

from mc import harness, popgen, sim
from mc.evidence import Partial, Reporter
from _gettsim import groupings as G

ID_LIKE = ["p_id", *popgen.POINTERS]

RELABEL = {
    "plus-1000": (lambda p: p + 1000, lambda h: h + 1000),
    "times-7-plus-3": (lambda p: p * 7 + 3, lambda h: h * 7 + 3),
    "order-reversing": (lambda p: 5000 - p, lambda h: 500 - h),
    "sparse-large": (lambda p: p * 6007 + 11, lambda h: h * 601 + 5),
    "p-only": (lambda p: p + 17, lambda h: h),
    "hh-only": (lambda p: p, lambda h: h + 29),
    "zero-based": (None, None),  # dense ranks starting at 0
    "multiples-of-100": (lambda p: p * 100, lambda h: h * 100),
    "hh-large": (lambda p: p + 3, lambda h: h * 1000 + 100000),
}


def relabel(rows, name):
    fp, fh = RELABEL[name]
    if name == "zero-based":
        pids = sorted({r["p_id"] for r in rows})
        hhs = sorted({r["hh_id"] for r in rows})
        pm = {p: i for i, p in enumerate(pids)}
        hm = {h: i for i, h in enumerate(hhs)}
        fp, fh = pm.__getitem__, hm.__getitem__
    out = []
    for r in rows:
        n = dict(r)
        n["hh_id"] = fh(r["hh_id"])
        for c in ID_LIKE:
            n[c] = fp(r[c]) if r[c] >= 0 else r[c]
        out.append(n)
    return out


def task_pairs(arg):
    date_iso, name_a, partners = arg
    out = Partial()
    year = int(date_iso[:4])
    rows_a = popgen.library_rows(name_a, year)
    dfa = popgen.frame(rows_a)
    keys = dfa["p_id"].tolist()
    try:
        alone = sim.sim_all(dfa, date_iso)
    except Exception as e:  # noqa: BLE001
        if sim.known_crash(date_iso, e):
            out.count("sims_skipped_known_C08_crash")
        else:
            out.violation(f"simulation-raises:{type(e).__name__}", {"date": date_iso, "population": name_a}, repr(e)[:300])
        return out.dump()
    for name_b in partners:
        rows_b = popgen.library_rows(name_b, year)
        nb = len(rows_b)
        placements = {"after": rows_a + rows_b}
        for k in range(nb):
            placements[f"before-rot{k}"] = rows_b[k:] + rows_b[:k] + rows_a
        inter = []
        for x, y in itertools.zip_longest(rows_b, rows_a):
            inter += [r for r in (x, y) if r is not None]
        placements["interleaved"] = inter
        # the way users stack households: pd.concat keeps each household's own row labels (0.. repeating), or persons are labelled by p_id
        placements["before-rot0/kept-labels"] = placements["before-rot0"]
        placements["before-rot0/p_id-labels"] = placements["before-rot0"]
        placements["after/kept-labels"] = placements["after"]
        for pl, rows in placements.items():
            df = popgen.frame(rows)
            if pl.endswith("/kept-labels"):
                first = nb if pl.startswith("before") else len(rows_a)
                df.index = list(range(first)) + list(range(len(rows) - first))
            elif pl.endswith("/p_id-labels"):
                df.index = df["p_id"].to_numpy() * 3 + 1
            case = {"date": date_iso, "A": name_a, "B": name_b, "placement": pl}
            out.state((date_iso, name_a, name_b, pl))
            try:
                joint = sim.sim_all(df, date_iso)
            except Exception as e:  # noqa: BLE001
                if sim.known_crash(date_iso, e):
                    out.count("sims_skipped_known_C08_crash")  # B contains a person who hits the recorded 2017 gap
                else:
                    out.violation(f"joint-simulation-raises:{type(e).__name__}", case, repr(e)[:300])
                continue
            out.step()
            if len(joint) != len(df):
                out.violation("joint-result-row-count", case, f"{len(joint)} result rows for {len(df)} persons")
                continue
            mask = df["p_id"].isin(keys).to_numpy()
            sub = joint[mask].reset_index(drop=True)
            sub_keys = df["p_id"].to_numpy()[mask].tolist()
            diffs = sim.compare_results(alone, sub, keys, sub_keys, ulps=0, check_dtype=True)
            for col, kind, detail in diffs:
                out.violation(f"joint-vs-alone:{kind}:{col}", {**case, "column": col}, f"{col} of {name_a} changes ({kind}) when simulated with {name_b} ({pl}) on {date_iso}: {detail}")
            # ids of A's persons never equal ids of B's persons (different households)
            for c in joint.columns:
                if c.endswith("_id") and c not in ("p_id",) and c in ("fg_id", "bg_id", "wthh_id", "eg_id", "ehe_id", "sn_id"):
                    ia = set(joint[c][mask].tolist())
                    ib = set(joint[c][~mask].tolist())
                    if ia & ib:
                        out.violation(f"id-collision:{c}", {**case, "column": c}, f"{c}: {sorted(ia & ib)} shared between unrelated households")
            out.outcome((name_a, name_b, pl.split("-")[0], not diffs))
    out.sample({"date": date_iso, "A": name_a, "B": partners[:3]}, limit=1)
    return out.dump()


def filler_rows(year, nrows, skip=None):
    """At least `nrows` rows made of relabelled copies of the library households (all but `skip`), ids disjoint from the library's."""
    others = [n for n in popgen.LIBRARY if n != skip]
    filler = []
    k = 0
    while len(filler) < nrows:
        nm = others[k % len(others)]
        rows = popgen.library_rows(nm, year)
        off_p, off_h = 1000 + 200 * k, 100 + 20 * k
        for r in rows:
            c = dict(r)
            c["hh_id"] = r["hh_id"] + off_h
            for col in ID_LIKE:
                c[col] = r[col] + off_p if r[col] >= 0 else r[col]
            if k % 5 == 0:
                c["alter"] = min(r["alter"] + 30, 100) if r["alter"] >= 40 else r["alter"]
            filler.append(c)
        k += 1
    return filler


def task_big_table(arg):
    """A inside a table of more than a thousand rows made of relabelled copies of other households."""
    date_iso, name_a, nrows = arg[:3]
    placement = arg[3] if len(arg) > 3 else "last"
    out = Partial()
    year = int(date_iso[:4])
    rows_a = popgen.library_rows(name_a, year)
    if placement in ("split-tail-first", "spread-reversed"):
        rows_a = rows_a[::-1]  # the reference run keeps A's rows in the same relative order, so float sums within A associate alike
    dfa = popgen.frame(rows_a)
    keys = dfa["p_id"].tolist()
    try:
        alone = sim.sim_all(dfa, date_iso)
    except Exception as e:  # noqa: BLE001
        if sim.known_crash(date_iso, e):
            out.count("sims_skipped_known_C08_crash")
        else:
            out.violation(f"simulation-raises:{type(e).__name__}", {"date": date_iso, "population": name_a}, repr(e)[:300])
        return out.dump()
    filler = filler_rows(year, nrows, skip=name_a)
    if placement == "last":  # A sits behind all the other rows
        rows = filler + rows_a
    elif placement == "first":
        rows = rows_a + filler
    elif placement == "split-head-first":  # A's first row opens the table, its other rows close it
        rows = rows_a[:1] + filler + rows_a[1:]
    elif placement == "split-tail-first":  # A's rows in reverse order (children before their parents), the last one far ahead of the others
        rows = rows_a[:1] + filler + rows_a[1:]
    else:  # A's rows in reverse order spread evenly over the table
        rev = rows_a
        step = max(len(filler) // max(len(rev), 1), 1)
        rows = []
        for i, r in enumerate(rev):
            rows += [r] + filler[i * step : (i + 1) * step]
        rows += filler[len(rev) * step :]
    df = popgen.frame(rows)
    case = {"date": date_iso, "A": name_a, "big_table_rows": nrows, "rows": len(df), "placement": placement}
    out.state((date_iso, name_a, "big-table", nrows, placement))
    try:
        joint = sim.sim_all(df, date_iso)
    except Exception as e:  # noqa: BLE001
        if sim.known_crash(date_iso, e):
            out.count("sims_skipped_known_C08_crash")
        else:
            out.violation(f"big-table-simulation-raises:{type(e).__name__}", case, repr(e)[:300])
        return out.dump()
    out.step()
    mask = df["p_id"].isin(keys).to_numpy()
    sub = joint[mask].reset_index(drop=True)
    diffs = sim.compare_results(alone, sub, keys, df["p_id"][mask].tolist(), ulps=0, check_dtype=True)
    for col, kind, detail in diffs:
        out.violation(f"joint-vs-alone:{kind}:{col}", {**case, "column": col}, f"{col} of {name_a} changes ({kind}) inside a table of {len(df)} rows on {date_iso}: {detail}")
    for c in ("fg_id", "bg_id", "wthh_id", "eg_id", "ehe_id", "sn_id"):
        if c in joint.columns:
            ia, ib = set(joint[c][mask].tolist()), set(joint[c][~mask].tolist())
            if ia & ib:
                out.violation(f"id-collision:{c}", {**case, "column": c}, f"{c}: {sorted(ia & ib)[:5]} shared between unrelated households in the big table")
    return out.dump()


def task_relabel(arg):
    date_iso, names = arg
    out = Partial()
    year = int(date_iso[:4])
    rows = popgen.combined(names, year)
    df = popgen.frame(rows)
    try:
        base = sim.sim_all(df, date_iso)
    except Exception as e:  # noqa: BLE001
        if sim.known_crash(date_iso, e):
            out.count("sims_skipped_known_C08_crash")
        else:
            out.violation(f"simulation-raises:{type(e).__name__}", {"date": date_iso, "population": names}, repr(e)[:300])
        return out.dump()
    for rl in RELABEL:
        r2 = relabel(rows, rl)
        d2 = popgen.frame(r2)
        case = {"date": date_iso, "population": names, "relabelling": rl}
        out.state((date_iso, tuple(names), rl))
        try:
            got = sim.sim_all(d2, date_iso)
        except Exception as e:  # noqa: BLE001
            out.violation(f"relabel:{rl}:simulation-raises:{type(e).__name__}", case, repr(e)[:300])
            continue
        out.step()
        pos = list(range(len(df)))
        skip = tuple(c for c in base.columns if c in ID_LIKE or c.startswith("p_id_") or c == "hh_id")
        diffs = sim.compare_results(base, got, pos, pos, ulps=0, check_dtype=True, skip=skip)
        for col, kind, detail in diffs:
            out.violation(f"relabel:{kind}:{col}", {**case, "column": col}, f"{col} changes ({kind}) under relabelling {rl} on {date_iso}: {detail}")
        # pointer-valued outputs must be relabelled consistently
        fp = {a["p_id"]: b["p_id"] for a, b in zip(rows, r2)}
        for c in base.columns:
            if c.startswith("p_id_") and c in got.columns:
                want = [fp.get(int(v), int(v)) if v >= 0 else int(v) for v in base[c].tolist()]
                if got[c].tolist() != want:
                    out.violation(f"relabel:pointer-output:{c}", {**case, "column": c}, f"{got[c].tolist()} vs {want}")
        out.outcome((rl, not diffs))
    return out.dump()


def check_large_arrays(rep):
    """join_numpy / sum_by_p_id / grouped_sum on arrays around block-size-like lengths, against a dict-based reference."""
    from _gettsim.aggregation import grouped_sum, sum_by_p_id
    from _gettsim.shared import join_numpy

    for n in (4095, 4096, 4097, 5000, 8193):
        p_id = (np.arange(n) * 7 + 3) % (8 * n)  # injective (7 and 8n coprime for these n? keep unique via permutation below)
        p_id = np.random.RandomState(n).permutation(np.arange(10, 10 + n))  # fixed permutation per n: sparse-ish, unsorted, unique
        fk = np.where(np.arange(n) % 3 == 0, -1, np.roll(p_id, 5))
        target = (np.arange(n) % 97).astype(float) * 0.5
        rep.state(("large", n))
        pos = {int(p): i for i, p in enumerate(p_id.tolist())}
        want = np.array([-1.0 if k < 0 else target[pos[int(k)]] for k in fk.tolist()])
        got = join_numpy(fk, p_id, target, -1.0)
        rep.step()
        if not np.array_equal(np.asarray(got), want):
            i = int(np.argmax(np.asarray(got) != want))
            rep.violation("large-array:join_numpy", {"n": n, "position": i}, f"join_numpy on {n} rows: position {i} gives {got[i]}, expected {want[i]}")
        col = (np.arange(n) % 13).astype(float)
        want_s = np.zeros(n)
        for i, k in enumerate(fk.tolist()):
            if k >= 0:
                want_s[pos[int(k)]] += col[i]
        got_s = sum_by_p_id(col, fk, p_id)
        rep.step()
        if not np.array_equal(np.asarray(got_s), want_s):
            i = int(np.argmax(np.asarray(got_s) != want_s))
            rep.violation("large-array:sum_by_p_id", {"n": n, "position": i}, f"sum_by_p_id on {n} rows: position {i} gives {got_s[i]}, expected {want_s[i]}")
        gid = (p_id // 3).astype(int)
        sums = {}
        for g, v in zip(gid.tolist(), col.tolist()):
            sums[g] = sums.get(g, 0.0) + v
        want_g = np.array([sums[g] for g in gid.tolist()])
        got_g = grouped_sum(col, gid)
        rep.step()
        if not np.array_equal(np.asarray(got_g), want_g):
            rep.violation("large-array:grouped_sum", {"n": n}, f"grouped_sum on {n} rows differs from the definition")


def check_id_arithmetic(rep):
    """Derived ids of persons in different family units / households never collide (direct enumeration)."""
    fgs = [0, 1, 2, 99, 100, 101, 10000]
    for n in (2, 3, 4):
        for fg in itertools.product(fgs[:4] if n == 4 else fgs, repeat=n):
            for young in itertools.product([False, True], repeat=n):
                alter = np.array([10 if y else 30 for y in young])
                eig = np.array(list(young))
                rep.state(("bg", fg, young))
                bg = G.bg_id_numpy(np.array(fg), alter, eig)
                rep.step()
                for i, j in itertools.combinations(range(n), 2):
                    if fg[i] != fg[j] and bg[i] == bg[j]:
                        rep.violation("id-arithmetic:bg_id-collides-across-fg", {"fg_id": fg, "self_sufficient_child": young}, f"bg ids {bg.tolist()}")
    # one family unit with many self-sufficient children next to neighbouring family units (up to 12 children)
    for m in range(1, 13):
        for base in (0, 1, 7, 99):
            for k in (1, 2, 3, 10, 11, 12):
                fg = [base] * (m + 1) + [base + k]
                young = [False] + [True] * m + [False]
                alter = np.array([10 if y else 30 for y in young])
                bg = G.bg_id_numpy(np.array(fg), alter, np.array(young))
                rep.state(("bg-many", m, base, k))
                rep.step()
                if len(set(bg[: m + 1].tolist())) != m + 1 or bg[-1] in bg[: m + 1].tolist():
                    rep.violation("id-arithmetic:bg_id-collides-across-fg", {"fg_id": fg, "self_sufficient_child": young}, f"bg ids {bg.tolist()}")
    # many unrelated families, each with one or two self-sufficient children: ids of different families must stay apart however many
    # such children the table holds (a table-wide counter collides at the 100th)
    for nfam in list(range(1, 130)) + [150, 200, 250, 300]:
        for kids in (1, 2):
            fg, young = [], []
            for k in range(nfam):
                fg += [k] * (1 + kids)
                young += [False] + [True] * kids
            alter = np.array([18 if y else 45 for y in young])
            bg = G.bg_id_numpy(np.array(fg), alter, np.array(young))
            rep.state(("bg-many-families", nfam, kids))
            rep.step()
            if len(set(bg.tolist())) != len(fg):
                seen = {}
                clash = next((i, seen[b]) for i, b in enumerate(bg.tolist()) if b in seen or seen.setdefault(b, i) != i)
                rep.violation("id-arithmetic:bg_id-collides-across-fg", {"families": nfam, "self_sufficient_children_per_family": kids, "rows": list(clash)},
                              f"with {nfam} families the persons in rows {clash} (family units {fg[clash[0]]} and {fg[clash[1]]}) share bg_id {bg[clash[0]]}")
                break
    hhs = [0, 1, 2, 3, 99, 100, 101, 10000]
    for n in (2, 3):
        for hh in itertools.product(hhs, repeat=n):
            for f1 in itertools.product([False, True], repeat=n):
                rep.state(("wthh", hh, f1))
                w = G.wthh_id_numpy(np.array(hh), np.array(f1), np.array([False] * n))
                rep.step()
                for i, j in itertools.combinations(range(n), 2):
                    if hh[i] != hh[j] and w[i] == w[j]:
                        rep.violation("id-arithmetic:wthh_id-collides-across-households", {"hh_id": hh, "flag": f1}, f"wthh ids {w.tolist()}")


def replay(case):
    date_iso = case["date"]
    year = int(date_iso[:4])
    if "big_table_rows" in case:
        part = task_big_table((date_iso, case["A"], case["big_table_rows"], case["placement"]))
        return not part["violations"], "; ".join(v[2] for v in part["violations"][:3])
    if "A" in case and "B" in case:
        rows_a, rows_b = popgen.library_rows(case["A"], year), popgen.library_rows(case["B"], year)
        pl_full = case["placement"]
        pl = pl_full.split("/")[0]
        if pl == "after":
            rows = rows_a + rows_b
        elif pl.startswith("before-rot"):
            k = int(pl[len("before-rot"):])
            rows = rows_b[k:] + rows_b[:k] + rows_a
        else:
            rows = []
            for x, y in itertools.zip_longest(rows_b, rows_a):
                rows += [r for r in (x, y) if r is not None]
        dfa, df = popgen.frame(rows_a), popgen.frame(rows)
        if pl_full.endswith("/kept-labels"):
            first = len(rows_b) if pl.startswith("before") else len(rows_a)
            df.index = list(range(first)) + list(range(len(rows) - first))
        elif pl_full.endswith("/p_id-labels"):
            df.index = df["p_id"].to_numpy() * 3 + 1
        alone, joint = sim.sim_all(dfa, date_iso), sim.sim_all(df, date_iso)
        mask = df["p_id"].isin(dfa["p_id"]).to_numpy()
        diffs = sim.compare_results(alone, joint[mask].reset_index(drop=True), dfa["p_id"].tolist(), df["p_id"].to_numpy()[mask].tolist())
        return not diffs, str(diffs[:5])
    return True, "re-run the check"


def run(tier):
    rep = Reporter("C02", tier)
    thorough = tier == "thorough"
    dates = [d.isoformat() for d in (popgen.d15() if thorough else popgen.quick_dates(2))]
    names = list(popgen.LIBRARY)
    tasks = []
    for d in dates:
        for a in names:
            others = [b for b in names if b != a]
            for k in range(0, len(others), 4):
                tasks.append((d, a, others[k : k + 4]))
    for part in harness.pmap(task_pairs, harness.rotate(tasks)):
        rep.merge(part)
    rl = [(d, [n]) for d in dates for n in names] + [(d, c) for d in dates for c in (["couple_kids", "parent_elsewhere"], ["patchwork", "three_gen", "pensioners"])]
    for part in harness.pmap(task_relabel, harness.rotate(rl)):
        rep.merge(part)
    bt = [(d, a, 4400) for d in dates[-1:] for a in names] if not thorough else [(d, a, n) for d in dates[::5] for a in names for n in (4400, 9000)]
    # households whose rows point at each other, with their rows far apart in tables just above typical block sizes
    pointing = [a for a in names if any(r[c] >= 0 for r in popgen.library_rows(a, 2023) for c in ID_LIKE if c != "p_id")]
    places = ["first", "split-head-first", "split-tail-first", "spread-reversed"]
    bt += [(d, a, n, pl) for d in (dates[::5] if thorough else dates[-1:]) for a in pointing for pl in places
           for n in ((1030, 2060, 4400) if thorough else (1030,))]
    for part in harness.pmap(task_big_table, harness.rotate(bt)):
        rep.merge(part)
    check_id_arithmetic(rep)
    check_large_arrays(rep)
    rep.bound = {"dates": dates, "households": names, "placements": "B after A; B before A in every rotation of B (each B row first once); interleaved; stacked frames that keep each household's own row labels / labelled by p_id",
                 "relabellings": list(RELABEL), "big_table_rows": "4400 (thorough also 9000), A placed last; 1030 (thorough also 2060, 4400) with A first / split across both ends / reversed and spread", "max_p_id": 6007 * 160, "max_hh_id": 601 * 16}
    rep.assumptions = ["ids are kept below 10^6 (p_id) / 10^4 (hh_id): numpy_groupies allocates max(id)+1 slots and derived ids are hh_id*100",
                       "comparison is bit-exact on every non-id node (joint vs alone keeps the evaluation order within A's groups)"]
    return rep.finish(
        "all ordered pairs (A, B) of library households x placements (B after A, B before A in every rotation so that each B row comes first, "
        "interleaved) x dates: all nodes of A simulated jointly must equal A simulated alone bit for bit, id nodes as partitions, no id shared "
        "between the two; seven consistent relabellings of p_id/hh_id and all pointer columns; direct enumeration of the derived-id arithmetic"
    )
