"""C04 - a column's value is independent of which other targets are requested (and of options / unused columns)."""
from __future__ import annotations

import warnings

import numpy as np
import pandas as pd

from mc import harness, popgen, sim
from mc.checks.c13 import UNITS, split
from mc.evidence import Partial, Reporter
from _gettsim.config import DEFAULT_TARGETS, SUPPORTED_GROUPINGS
from _gettsim.interface import compute_taxes_and_transfers

POP = ["couple_kids", "single_parent", "pensioners", "unemployed"]
POP2 = ["patchwork", "parental_leave", "self_employed", "three_gen"]


def run_api(df, date_iso, targets, **kw):
    p, f = harness.env(date_iso)
    with warnings.catch_warnings():
        warnings.simplefilter("ignore")
        return compute_taxes_and_transfers(df, p, f, targets=targets, **kw)


def derived_names(t, nodes, cols, kinds):
    """Names that only exist when requested: other time units, automatic group sums."""
    out = []
    s = split(t)
    if s:
        b, u, a = s
        out += [f"{b}{v}{a}" for v in UNITS if v != u]
    has_group = any(t.endswith(f"_{g}") for g in SUPPORTED_GROUPINGS)
    if not has_group and not t.endswith("_id") and kinds.get(t) in "fiub":
        out += [f"{t}_{g}" for g in SUPPORTED_GROUPINGS]
    return [n for n in out if n not in cols]


def same(a, b):
    a, b = np.asarray(a), np.asarray(b)
    if a.shape != b.shape:
        return False
    return bool(sim.col_equal(a, b).all()) and a.dtype.kind == b.dtype.kind


def task_nodes(arg):
    date_iso, names, subset = arg
    out = Partial()
    year = int(date_iso[:4])
    df = popgen.frame(popgen.combined(names, year))
    cols = list(df.columns)
    n = len(df)
    try:
        nodes = sim.all_nodes(date_iso, tuple(cols))
        full = run_api(df, date_iso, nodes)
    except Exception as e:  # noqa: BLE001
        if sim.known_crash(date_iso, e):
            out.count("sims_skipped_known_C08_crash")
        else:
            out.violation(f"all-nodes-run-raises:{type(e).__name__}", {"date": date_iso, "households": names}, repr(e)[:300])
        return out.dump()
    kinds = {c: full[c].to_numpy().dtype.kind for c in full.columns}
    for t in subset:
        if t not in nodes:
            continue
        ref = full[t].to_numpy()
        dn = derived_names(t, nodes, cols, kinds)
        sets = {"alone": [t], "with-derived": [t, *dn], "default-plus": sorted(set(DEFAULT_TARGETS) | {t})}
        for label, tg in sets.items():
            if label == "with-derived" and not dn:
                continue
            case = {"date": date_iso, "households": names, "target": t, "target_set": label, "targets": tg if len(tg) < 12 else tg[:12] + ["..."]}
            out.state((date_iso[:4], t, label))
            try:
                r = run_api(df, date_iso, tg)
            except Exception as e:  # noqa: BLE001
                out.step()
                out.violation(f"target-set-raises:{label}:{t}", case, f"targets {label} for {t} on {date_iso}: {e!r}"[:300])
                continue
            out.step()
            if sorted(r.columns) != sorted(set(tg)):
                out.violation(f"result-columns-differ-from-targets:{label}", {**case, "columns": sorted(r.columns)[:10]},
                              f"requested {sorted(set(tg))[:6]}, got {sorted(r.columns)[:6]}")
            if len(r) != n:
                out.violation(f"row-count:{label}:{t}", case, f"{len(r)} rows for {n} input rows")
                continue
            if not same(r[t].to_numpy(), ref):
                i = int(np.argmin(sim.col_equal(r[t].to_numpy(), ref))) if r[t].to_numpy().shape == ref.shape else 0
                out.violation(f"value-depends-on-target-set:{t}", {**case, "row": i},
                              f"{t} = {r[t].to_numpy()[i]!r} ({r[t].dtype}) with targets {label}, {ref[i]!r} ({ref.dtype}) with all nodes, on {date_iso}")
            # derived companions must agree with the all-nodes value of their parent by the fixed relation
            if label == "with-derived":
                s = split(t)
                for d_ in dn:
                    sd = split(d_)
                    if s and sd and sd[0] == s[0] and sd[2] == s[2]:
                        from mc.checks.c13 import PER_YEAR
                        a = np.asarray(r[d_].to_numpy(), dtype=float) * float(PER_YEAR[sd[1]])
                        b = np.asarray(ref, dtype=float) * float(PER_YEAR[s[1]])
                        ok = (a == b) | (np.abs(a - b) <= 1e-12 * np.maximum(np.abs(a), np.abs(b)))
                        if not ok.all():
                            out.violation(f"derived-companion-inconsistent:{d_}", {**case, "derived": d_}, f"{d_} vs {t}")
    out.sample({"date": date_iso, "households": names, "targets": subset[:4]}, limit=1)
    return out.dump()

def on_demand_names(nodes, cols, kinds):
    """(name, parent node) for every name that exists only when requested: other units of a timed node, automatic group sums of an
    individual-level numeric node, and group sums in another unit."""
    seen = {}
    for t in nodes:
        for d_ in derived_names(t, nodes, cols, kinds):
            seen.setdefault(d_, t)
        s = split(t)
        if s and not s[2] and kinds.get(t) == "f":
            for v in UNITS:
                for g in ("hh", "sn"):
                    d_ = f"{s[0]}{v}_{g}"
                    if v != s[1] and d_ not in cols and d_ not in nodes:
                        seen.setdefault(d_, t)
    return sorted(seen.items())


def _run_available(df, date_iso, tg, must):
    """Run with the targets that exist; names other than `must` that have no function are dropped."""
    tg = list(tg)
    for _ in range(len(tg)):
        try:
            return run_api(df, date_iso, tg), tg
        except ValueError as e:
            msg = str(e)
            if "no corresponding function" not in msg:
                raise
            drop = [x for x in tg if f'"{x}"' in msg and x not in must]
            if not drop:
                raise
            tg = [x for x in tg if x not in drop]
    raise ValueError("no targets left")


def task_on_demand(arg):
    """The value of an on-demand name must not depend on which of its own relatives are requested next to it."""
    date_iso, names, pairs = arg
    out = Partial()
    df = popgen.frame(popgen.combined(names, int(date_iso[:4])))
    cols = list(df.columns)
    for d_, t in pairs:
        sd = split(d_)
        rel = [t]
        if sd:
            rel += [f"{sd[0]}{v}{sd[2]}" for v in UNITS if v != sd[1]]  # the same aggregate in the other units
            if sd[2]:
                rel.append(f"{sd[0]}{sd[1]}")  # the same unit without the group suffix
        rel = [x for x in dict.fromkeys(rel) if x != d_ and x not in cols]
        case = {"date": date_iso, "households": names, "on_demand_target": d_, "parent": t}
        try:
            alone = run_api(df, date_iso, [d_])[d_].to_numpy()
        except Exception:  # noqa: BLE001
            out.count("on_demand_names_not_available")
            continue
        out.state((date_iso[:4], d_, "on-demand"))
        out.step()
        try:
            r, tg = _run_available(df, date_iso, [*rel, d_], {d_})
        except Exception as e:  # noqa: BLE001
            out.step()
            out.violation("target-set-raises:on-demand", {**case, "targets": [*rel, d_]}, f"targets {[*rel, d_]} on {date_iso}: {e!r}"[:300])
            continue
        out.step()
        if not same(r[d_].to_numpy(), alone):
            i = int(np.argmin(sim.col_equal(r[d_].to_numpy(), alone))) if r[d_].to_numpy().shape == alone.shape else 0
            out.violation(f"value-depends-on-target-set:on-demand:{'unit' if sd else 'sum'}", {**case, "targets": tg, "row": i},
                          f"{d_} = {alone[i]!r} requested alone but {r[d_].to_numpy()[i]!r} ({r[d_].dtype}) with targets {tg} on {date_iso}")
    return out.dump()


def task_siblings(arg):
    """An unused extra column that is the time-unit sibling of a rule must not change the rule's value."""
    date_iso, names, subset = arg
    out = Partial()
    year = int(date_iso[:4])
    df = popgen.frame(popgen.combined(names, year))
    cols = list(df.columns)
    n = len(df)
    _, f = harness.env(date_iso)
    try:
        nodes = sim.all_nodes(date_iso, tuple(cols))
        full = run_api(df, date_iso, nodes)
        dag = sim.dag_for(date_iso, tuple(cols))
    except Exception as e:  # noqa: BLE001
        if sim.known_crash(date_iso, e):
            out.count("sims_skipped_known_C08_crash")
        return out.dump()
    import networkx as nx

    for t in subset:
        s = split(t)
        if t in f and not any(t.endswith(f"_{g}") for g in SUPPORTED_GROUPINGS) and not t.endswith("_id") and full[t].to_numpy().dtype.kind in "fiub" \
                and not (getattr(f[t], "__info__", {}) or {}).get("skip_vectorization"):
            # an unused column named like the household-level aggregate of an individual-level rule
            sib = f"{t}_hh"
            anc_t = nx.ancestors(dag, t) if t in dag else set()
            if sib not in cols and sib not in anc_t and sib not in f:
                d2 = df.copy()
                d2[sib] = df["hh_id"].to_numpy().astype(float) * 5.0 + 3.0
                case = {"date": date_iso, "households": names, "target": t, "extra_column": sib}
                out.state((date_iso[:4], t, sib))
                try:
                    r = run_api(d2, date_iso, [t])
                    out.step()
                    if not same(r[t].to_numpy(), full[t].to_numpy()):
                        out.violation(f"value-depends-on-unused-sibling-column:{t}", case, f"{t} changes when the unused column {sib} is present ({date_iso})")
                except Exception as e:  # noqa: BLE001
                    out.step()
                    out.violation(f"extra-sibling-column-raises:{t}", case, f"{e!r}"[:300])
        if not s or t not in f:
            continue
        anc = nx.ancestors(dag, t) if t in dag else set()
        for v in UNITS:
            sib = f"{s[0]}{v}{s[2]}"
            if v == s[1] or sib in cols or sib in anc or sib in f:
                continue
            d2 = df.copy()
            d2[sib] = df["hh_id"].to_numpy().astype(float) * 7.0 + 11.0 if sib.endswith("_hh") else np.linspace(11.0, 97.0, n)
            case = {"date": date_iso, "households": names, "target": t, "extra_column": sib}
            out.state((date_iso[:4], t, sib))
            try:
                r = run_api(d2, date_iso, [t])
            except Exception as e:  # noqa: BLE001
                out.step()
                out.violation(f"extra-sibling-column-raises:{t}", case, f"{e!r}"[:300])
                continue
            out.step()
            if not same(r[t].to_numpy(), full[t].to_numpy()):
                out.violation(f"value-depends-on-unused-sibling-column:{t}", case,
                              f"{t} = {r[t].tolist()[:4]} when the unused column {sib} is present, {full[t].tolist()[:4]} without it ({date_iso})")
    return out.dump()


def task_options(arg):
    """debug, check_minimal_specification, unused extra columns, the complete target set with all derived-only names."""
    date_iso, names = arg
    out = Partial()
    year = int(date_iso[:4])
    df = popgen.frame(popgen.combined(names, year))
    cols = list(df.columns)
    n = len(df)
    try:
        nodes = sim.all_nodes(date_iso, tuple(cols))
        full = run_api(df, date_iso, nodes)
        base = run_api(df, date_iso, None)
    except Exception as e:  # noqa: BLE001
        if sim.known_crash(date_iso, e):
            out.count("sims_skipped_known_C08_crash")
        else:
            out.violation(f"all-nodes-run-raises:{type(e).__name__}", {"date": date_iso, "households": names}, repr(e)[:300])
        return out.dump()
    case0 = {"date": date_iso, "households": names}

    def cmp(label, r, ref, columns):
        out.step()
        out.state((date_iso[:4], tuple(names), label))
        if len(r) != n:
            out.violation(f"row-count:{label}", {**case0, "variant": label}, f"{len(r)} rows")
            return
        for c in columns:
            if c not in r.columns:
                out.violation(f"column-missing:{label}:{c}", {**case0, "variant": label}, c)
            elif not same(r[c].to_numpy(), ref[c].to_numpy()):
                out.violation(f"value-depends-on-option:{label}:{c}", {**case0, "variant": label, "column": c}, f"{c} differs with {label} on {date_iso}")

    # default targets == their values in the all-nodes run
    cmp("default-vs-all-nodes", base, full, list(DEFAULT_TARGETS))
    if list(base.columns) and sorted(base.columns) != sorted(DEFAULT_TARGETS):
        out.violation("result-columns-differ-from-targets:default", case0, str(sorted(base.columns)[:8]))
    # debug
    for tg, lab in ((None, "debug-default"), (nodes, "debug-all-nodes")):
        try:
            r = run_api(df, date_iso, tg, debug=True)
            cmp(lab, r, full, list(DEFAULT_TARGETS) if tg is None else nodes)
            missing_inputs = [c for c in cols if c not in r.columns]
            if missing_inputs:
                out.violation(f"debug-drops-input-columns:{lab}", {**case0, "missing": missing_inputs[:5]}, str(missing_inputs[:5]))
        except Exception as e:  # noqa: BLE001
            out.violation(f"option-raises:{lab}:{type(e).__name__}", case0, repr(e)[:300])
    # debug x index labels: row i of the result belongs to row i of the input whatever the index says
    idx_variants = {
        "permuted-ints": [(i * 3 + 1) % n if n % 3 else (n - 1 - i) for i in range(n)],
        "disjoint-ints": [100 + 7 * i for i in range(n)],
        "strings": [f"row-{chr(97 + (n - i) % 26)}{i}" for i in range(n)],
    }
    for lab, idx in idx_variants.items():
        for dbg in (True, False):
            d2 = df.copy()
            d2.index = pd.Index(idx)
            try:
                r = run_api(d2, date_iso, None, debug=dbg)
                cmp(f"index-{lab}-debug-{dbg}", r, base, list(DEFAULT_TARGETS))
                if dbg and "p_id" in r.columns and r["p_id"].tolist() != df["p_id"].tolist():
                    out.violation(f"output-order:index-{lab}-debug-{dbg}", case0, f"p_id column of the debug output {r['p_id'].tolist()[:6]} vs input {df['p_id'].tolist()[:6]}")
            except Exception as e:  # noqa: BLE001
                out.violation(f"option-raises:index-{lab}-debug-{dbg}:{type(e).__name__}", case0, repr(e)[:300])
    # check_minimal_specification
    try:
        r = run_api(df, date_iso, None, check_minimal_specification="warn")
        cmp("minimal-spec-warn", r, base, list(DEFAULT_TARGETS))
    except Exception as e:  # noqa: BLE001
        out.violation(f"option-raises:minimal-spec-warn:{type(e).__name__}", case0, repr(e)[:300])
    dag = sim.dag_for(date_iso, tuple(cols))
    roots = [c for c in cols if c in dag and dag.in_degree(c) == 0]
    try:
        r = run_api(df[roots], date_iso, None, check_minimal_specification="raise")
        cmp("minimal-spec-raise-exact-roots", r, base, list(DEFAULT_TARGETS))
    except Exception as e:  # noqa: BLE001
        out.violation(f"option-raises:minimal-spec-raise-exact-roots:{type(e).__name__}", {**case0, "roots": len(roots)}, repr(e)[:300])
    # unused extra columns
    extras = {
        "fresh-name": {"völlig_neue_spalte": np.arange(n, dtype=float)},
        "foo_m": {"foo_m": np.full(n, 2.5)},
        "foo_hh": {"foo_hh": df["hh_id"].to_numpy().astype(float) * 3.0},
        "foo_m_hh": {"foo_m_hh": df["hh_id"].to_numpy().astype(float) + 0.5},
        "object-column": {"bemerkung": np.array([f"text {i}" for i in range(n)], dtype=object)},
        "all-nan": {"leer": np.full(n, np.nan)},
        "int-named-like-id": {"firma_id": np.arange(n)},
    }
    for lab, add in extras.items():
        d2 = df.copy()
        for k, v in add.items():
            d2[k] = v
        try:
            r = run_api(d2, date_iso, None)
            cmp(f"extra-column:{lab}", r, base, list(DEFAULT_TARGETS))
            if sorted(r.columns) != sorted(DEFAULT_TARGETS):
                out.violation(f"result-columns-differ-from-targets:extra-column:{lab}", case0, str(sorted(r.columns)[:8]))
        except Exception as e:  # noqa: BLE001
            out.violation(f"option-raises:extra-column:{lab}:{type(e).__name__}", case0, repr(e)[:300])
    # everything at once: all nodes plus every derived-only name
    kinds = {c: full[c].to_numpy().dtype.kind for c in full.columns}
    everything = set(nodes)
    for t in nodes:
        everything.update(derived_names(t, nodes, cols, kinds))
    try:
        r = run_api(df, date_iso, sorted(everything))
        cmp("all-nodes-plus-all-derived", r, full, nodes)
    except Exception as e:  # noqa: BLE001
        out.violation(f"target-set-raises:all-nodes-plus-all-derived:{type(e).__name__}", case0, repr(e)[:400])
    # an unused column named like a built-in aggregate without its group suffix (e.g. `anz_personen` next to the target `anz_personen_hh`)
    from _gettsim.functions_loader import load_aggregation_dict
    from _gettsim.shared import remove_group_suffix

    _, f_env = harness.env(date_iso)
    for agg, spec in sorted(load_aggregation_dict("aggregate_by_group").items()):
        stripped = remove_group_suffix(agg)
        if agg not in nodes or stripped in cols or stripped in nodes or stripped in f_env or stripped == agg:
            continue
        d2 = df.copy()
        d2[stripped] = np.arange(n) % 3 + 2
        try:
            r = run_api(d2, date_iso, [agg])
            out.step()
            out.state((date_iso[:4], "stripped-name", agg))
            if not same(r[agg].to_numpy(), full[agg].to_numpy()):
                out.violation(f"value-depends-on-unused-column-named-like-aggregate:{agg}", {**case0, "target": agg, "extra_column": stripped},
                              f"{agg} = {r[agg].tolist()[:5]} when the unused column {stripped} is present, {full[agg].tolist()[:5]} without it ({date_iso})")
        except Exception as e:  # noqa: BLE001
            out.violation(f"option-raises:stripped-name:{agg}:{type(e).__name__}", {**case0, "extra_column": stripped}, repr(e)[:300])
    # empty spec dictionaries instead of None
    try:
        r = run_api(df, date_iso, None, aggregate_by_group_specs={}, aggregate_by_p_id_specs={})
        cmp("empty-spec-dicts", r, base, list(DEFAULT_TARGETS))
    except Exception as e:  # noqa: BLE001
        out.violation(f"option-raises:empty-spec-dicts:{type(e).__name__}", case0, repr(e)[:300])
    # pairs of non-default targets requested together (a rotating partner for every node)
    nd = [t for t in nodes if t not in DEFAULT_TARGETS]
    for i, t in enumerate(nd):
        u = nd[(i * 7 + 3) % len(nd)]
        if u == t:
            continue
        try:
            r = run_api(df, date_iso, [t, u])
            out.step()
            out.state((date_iso[:4], "pair", t, u))
            for c in (t, u):
                if not same(r[c].to_numpy(), full[c].to_numpy()):
                    out.violation(f"value-depends-on-target-set:{c}", {**case0, "target_set": "pair", "targets": [t, u]}, f"{c} differs when requested together with {u if c == t else t} on {date_iso}")
            if sorted(r.columns) != sorted({t, u}) or len(r) != n:
                out.violation("result-shape:pair", {**case0, "targets": [t, u]}, f"columns {sorted(r.columns)} rows {len(r)}")
        except Exception as e:  # noqa: BLE001
            out.violation(f"target-set-raises:pair:{t}+{u}", {**case0, "targets": [t, u]}, repr(e)[:300])
    # targets given as a string / with duplicates / in another order
    try:
        t0 = DEFAULT_TARGETS[0]
        r1 = run_api(df, date_iso, t0)
        r2 = run_api(df, date_iso, [t0, t0])
        r3 = run_api(df, date_iso, list(reversed(DEFAULT_TARGETS)))
        cmp("target-as-string", r1, base, [t0])
        cmp("duplicate-target", r2, base, [t0])
        cmp("reversed-target-list", r3, base, list(DEFAULT_TARGETS))
    except Exception as e:  # noqa: BLE001
        out.violation(f"option-raises:target-forms:{type(e).__name__}", case0, repr(e)[:300])
    return out.dump()


def replay(case):
    if "on_demand_target" in case:
        p = task_on_demand((case["date"], case["households"], [(case["on_demand_target"], case["parent"])]))
        return not p["violations"], "; ".join(x[2] for x in p["violations"][:3])
    if "target" in case:
        date_iso, names, t = case["date"], case["households"], case["target"]
        p = task_nodes((date_iso, names, [t]))
        return not p["violations"], "; ".join(x[2] for x in p["violations"][:3])
    return True, "re-run the check"


def run(tier):
    rep = Reporter("C04", tier)
    thorough = tier == "thorough"
    dates = [d.isoformat() for d in (popgen.d15() if thorough else popgen.quick_dates(2))]
    pops = [POP, POP2] if thorough else [POP]
    tasks = []
    for d in dates:
        for pop in pops:
            df = popgen.frame(popgen.combined(pop, int(d[:4])))
            try:
                nodes = sim.all_nodes(d, tuple(df.columns))
            except Exception:  # noqa: BLE001
                continue
            nodes = harness.rotate(nodes)
            for k in range(0, len(nodes), 8):
                tasks.append((d, pop, nodes[k : k + 8]))
    for part in harness.pmap(task_nodes, harness.rotate(tasks)):
        rep.merge(part)
    for part in harness.pmap(task_siblings, harness.rotate(tasks)):
        rep.merge(part)
    od = []
    for d in (dates[::8] if thorough else dates[-1:]):
        for pop in pops:
            df = popgen.frame(popgen.combined(pop, int(d[:4])))
            try:
                nodes = sim.all_nodes(d, tuple(df.columns))
                full = run_api(df, d, nodes)
            except Exception:  # noqa: BLE001
                continue
            kinds = {c: full[c].to_numpy().dtype.kind for c in full.columns}
            pairs = on_demand_names(nodes, list(df.columns), kinds)
            od += [(d, pop, pairs[k : k + 25]) for k in range(0, len(pairs), 25)]
    for part in harness.pmap(task_on_demand, harness.rotate(od)):
        rep.merge(part)
    otasks = [(d, pop) for d in dates for pop in ([POP, POP2] if thorough else [POP, POP2])]
    for part in harness.pmap(task_options, otasks):
        rep.merge(part)
    rep.bound = {"dates": dates, "populations": pops, "target_sets_per_node": ["{t}", "{t} + derived-only companions", "DEFAULT + {t}", "all nodes", "all nodes + all derived-only names"]}
    rep.assumptions = ["'all subsets' is explored as: every singleton, every singleton with its derived-only companions, default targets plus each node, "
                       "all nodes, all nodes plus all derived-only names - the value in every run is compared bit for bit with the all-nodes run",
                       "derived-only names: the three other time units of a timed node and the automatic group sums of an individual-level numeric node"]
    return rep.finish(
        "per (population, date): for EVERY node t of the default-target graph the target sets {t}, {t}+derived companions, DEFAULT+{t} against "
        "the all-nodes run (bit-exact value and dtype, exactly the requested columns, one row per input row); debug on/off, "
        "check_minimal_specification ignore/warn/raise(with exactly the root columns), seven kinds of unused extra columns, for every timed rule an "
        "unused column named like its sibling in another time unit, all nodes plus all "
        "derived-only names, targets as string / duplicated / reversed"
    )
