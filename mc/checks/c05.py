"""C05 - supplying a computed column as data is equivalent to computing it (and is announced)."""
from __future__ import annotations

import inspect
import warnings

import numpy as np
import pandas as pd

from mc import harness, popgen, sim
from mc.evidence import Partial, Reporter
from _gettsim.functions_loader import load_aggregation_dict, load_and_check_functions
from _gettsim.groupings import create_groupings
from _gettsim.interface import (
    FunctionsAndColumnsOverlapWarning,
    _round_and_partial_parameters_to_functions,
    compute_taxes_and_transfers,
)

POP = ["couple_kids", "single_parent", "pensioners", "unemployed"]
POP2 = ["patchwork", "parental_leave", "self_employed", "three_gen"]


class Tripwire(Exception):
    pass


def make_tripwire(name, func):
    """A user function with the same arguments as rule `name` that raises when evaluated."""
    params = [a for a in inspect.signature(func).parameters]
    src = f"def {name}({', '.join(params)}):\n    raise Tripwire({name!r})\n"
    ns = {"Tripwire": Tripwire}
    exec(src, ns)  # noqa: S102
    fn = ns[name]
    fn.__annotations__ = dict(getattr(func, "__annotations__", {}))
    if hasattr(func, "__info__"):
        fn.__info__ = dict(func.__info__)
    return fn


def make_constant_rule(name, values):
    """A user rule `name(p_id)` that returns the given column (skip_vectorization)."""
    from _gettsim.shared import policy_info

    ns = {"VALUES": np.asarray(values), "numpy": np}
    exec(f"def {name}(p_id: numpy.ndarray[int]) -> numpy.ndarray[float]:\n    return VALUES\n", ns)  # noqa: S102
    fn = ns[name]
    fn.__info__ = {"skip_vectorization": True}
    return fn


def task(arg):
    date_iso, names, subset = arg[:3]
    deep = arg[3] if len(arg) > 3 else False
    out = Partial()
    year = int(date_iso[:4])
    df = popgen.frame(popgen.combined(names, year))
    cols = list(df.columns)
    p, f = harness.env(date_iso)
    try:
        nodes = sim.all_nodes(date_iso, tuple(cols))
        with warnings.catch_warnings():
            warnings.simplefilter("ignore")
            full = compute_taxes_and_transfers(df, p, f, targets=nodes)
    except Exception as e:  # noqa: BLE001
        if sim.known_crash(date_iso, e):
            out.count("sims_skipped_known_C08_crash")
        else:
            out.violation(f"all-nodes-run-raises:{type(e).__name__}", {"date": date_iso, "households": names}, repr(e)[:300])
        return out.dump()
    dag = sim.dag_for(date_iso, tuple(cols))
    must_warn = set(f) | set(create_groupings()) | set(load_aggregation_dict("aggregate_by_group")) | set(load_aggregation_dict("aggregate_by_p_id"))
    for n in subset:
        if n not in nodes:
            continue
        d2 = df.copy()
        d2[n] = full[n].to_numpy()
        targets = [t for t in nodes if t != n]
        case = {"date": date_iso, "households": names, "node": n}
        out.state((date_iso[:4], tuple(names), n))
        funcs = [f, {n: make_tripwire(n, f[n])}] if n in f else f
        try:
            with warnings.catch_warnings(record=True) as w:
                warnings.simplefilter("always")
                got = compute_taxes_and_transfers(d2, p, funcs, targets=targets)
        except Tripwire:
            out.step()
            out.violation(f"supplied-column-ignored:{n}", case, f"{n} was supplied as data on {date_iso} but its rule was evaluated all the same")
            continue
        except Exception as e:  # noqa: BLE001
            out.step()
            out.violation(f"override-raises:{n}:{type(e).__name__}", case, f"supplying {n} on {date_iso}: {e!r}"[:300])
            continue
        out.step()
        keys = list(range(len(df)))
        diffs = sim.compare_results(full[targets], got, keys, keys, ulps=0, check_dtype=True)
        for col, kind, detail in diffs:
            out.violation(f"override-changes:{col}<-{n}", {**case, "column": col, "kind": kind},
                          f"supplying the computed {n} changes {col} ({kind}) on {date_iso}: {detail}")
        # the same substitution through the other documented data forms: a dict of Series whose row labels differ between the input
        # columns and the fed-back column (results always carry a fresh RangeIndex), and a frame with permuted row labels - rows are
        # persons by POSITION, so nothing may change
        if subset.index(n) < 2:
            nrow = len(df)
            labelsets = {"reversed": list(range(nrow))[::-1], "offset": [100 + 3 * i for i in range(nrow)], "rotated": list(range(1, nrow)) + [0]}
            for lname, labels in labelsets.items():
                forms = {
                    "dict-of-series": {c: (pd.Series(d2[c].to_numpy()) if c == n else pd.Series(d2[c].to_numpy(), index=labels)) for c in d2.columns},
                    "frame": pd.DataFrame({c: d2[c].to_numpy() for c in d2.columns}, index=labels),
                }
                for fname, data in forms.items():
                    if fname == "frame" and lname != "rotated":
                        continue
                    try:
                        with warnings.catch_warnings():
                            warnings.simplefilter("ignore")
                            got2 = compute_taxes_and_transfers(data, p, f, targets=targets)
                        out.step()
                        out.count("data_form_runs")
                        for col, kind, detail in sim.compare_results(full[targets], got2.reset_index(drop=True), keys, keys, ulps=0, check_dtype=True)[:3]:
                            out.violation(f"override-changes-in-data-form:{fname}:{lname}", {**case, "column": col, "form": fname, "labels": lname},
                                          f"supplying the computed {n} inside a {fname} with {lname} row labels changes {col} ({kind}) on {date_iso}: {detail}")
                    except Exception as e:  # noqa: BLE001
                        out.step()
                        out.violation(f"override-raises-in-data-form:{fname}:{lname}:{type(e).__name__}", {**case, "form": fname, "labels": lname}, repr(e)[:300])
        overlap = [x for x in w if issubclass(x.category, FunctionsAndColumnsOverlapWarning)]
        named = any(f'"{n}"' in str(x.message) for x in overlap)
        if n in must_warn and not named:
            out.violation(f"override-not-announced:{n}", case, f"supplying {n} (a rule / grouping / aggregation) raised no FunctionsAndColumnsOverlapWarning naming it")
        out.outcome((n in f, named))
        # a supplied column must be USED by its consumers: supply marker values (computed + 1) and re-evaluate every direct consumer on
        # the columns of that run - it must have seen the marker, not a value computed internally
        col = full[n].to_numpy()
        if col.dtype.kind in "fiu" and not n.endswith("_id") and n in dag:
            marker = col + 1 if col.dtype.kind in "iu" else col + 1.37  # off every statutory grid: a supplied column must not be rounded
            d3 = df.copy()
            d3[n] = marker
            succ = [t for t in dag.successors(n) if t in nodes][:4]
            if succ:
                try:
                    with warnings.catch_warnings():
                        warnings.simplefilter("ignore")
                        dbg = compute_taxes_and_transfers(d3, p, f, targets=succ, debug=True)
                        fn3, _ = load_and_check_functions(f, succ, list(d3.columns), {}, {})
                        proc = _round_and_partial_parameters_to_functions({c: fn3[c] for c in succ if c in fn3}, p, True)
                    out.step()
                    if n not in dbg.columns or not np.array_equal(dbg[n].to_numpy().astype(float), marker.astype(float)):
                        out.violation(f"supplied-column-ignored:{n}", {**case, "marker": True}, f"{n} supplied with marker values on {date_iso} is not what the debug output holds")
                    for c, fc in proc.items():
                        args = [a for a in inspect.signature(fc).parameters]
                        if not all(a in dbg.columns for a in args):
                            continue
                        with np.errstate(all="ignore"):
                            want = np.asarray(fc(**{a: dbg[a].to_numpy() for a in args}))
                        got = dbg[c].to_numpy()
                        want = np.broadcast_to(want, got.shape)
                        ok = sim.col_equal(got, want, ulps=2)
                        if not ok.all():
                            i = int(np.argmin(ok))
                            out.violation(f"supplied-column-not-seen-by:{c}<-{n}", {**case, "consumer": c, "row": i},
                                          f"{n} was supplied with marker values on {date_iso}; consumer {c} holds {got[i]!r}, but evaluated on the supplied column it is {want[i]!r}")
                except Exception as e:  # noqa: BLE001
                    out.count("marker_runs_raising")
                    out.setadd("marker_run_errors", f"{n}:{type(e).__name__}")
            # for a policy rule: supplying the marker column must be equivalent, on EVERY other node (indirect consumers, time-unit
            # siblings, group aggregates), to replacing the rule by a user function that returns the marker
            if n in f and deep and col.dtype.kind == "f":
                try:
                    const = make_constant_rule(n, marker)
                    tg = [t for t in nodes if t != n]
                    with warnings.catch_warnings():
                        warnings.simplefilter("ignore")
                        a = compute_taxes_and_transfers(d3, p, f, targets=tg)
                        b = compute_taxes_and_transfers(df, p, [f, {n: const}], targets=tg, rounding=True)
                    out.step(2)
                    keys = list(range(len(df)))
                    info = getattr(f[n], "__info__", {}) or {}
                    if not info.get("params_key_for_rounding"):
                        for c2, kind, detail in sim.compare_results(b, a, keys, keys, ulps=0, check_dtype=False)[:5]:
                            out.violation(f"supplied-column-differs-from-replaced-rule:{c2}<-{n}", {**case, "column": c2},
                                          f"{c2} differs between supplying {n} (marker values) as data and replacing rule {n} by a function returning them ({kind}: {detail})")
                except Exception as e:  # noqa: BLE001
                    out.count("constant_rule_runs_raising")
                    out.setadd("constant_rule_errors", f"{n}:{type(e).__name__}:{str(e)[:40]}")
    out.sample({"date": date_iso, "households": names, "nodes": subset[:4]}, limit=1)
    return out.dump()

def task_many(arg):
    """MANY computed columns fed back at once (2, 21, 40, 80, all rule nodes with a declared type): every remaining node unchanged, and every
    one of the supplied rule / grouping / aggregation columns named by the overlap warning."""
    date_iso, names, k, offset = arg
    out = Partial()
    year = int(date_iso[:4])
    df = popgen.frame(popgen.combined(names, year))
    cols = list(df.columns)
    p, f = harness.env(date_iso)
    try:
        nodes = sim.all_nodes(date_iso, tuple(cols))
        with warnings.catch_warnings():
            warnings.simplefilter("ignore")
            full = compute_taxes_and_transfers(df, p, f, targets=nodes)
    except Exception as e:  # noqa: BLE001
        if sim.known_crash(date_iso, e):
            out.count("sims_skipped_known_C08_crash")
        else:
            out.violation(f"all-nodes-run-raises:{type(e).__name__}", {"date": date_iso, "households": names}, repr(e)[:300])
        return out.dump()
    must_warn = set(f) | set(create_groupings()) | set(load_aggregation_dict("aggregate_by_group")) | set(load_aggregation_dict("aggregate_by_p_id"))
    cand = sorted(n for n in nodes if n in f)
    cand = cand[offset:] + cand[:offset]
    chosen = cand if k is None else cand[:k]
    d2 = df.copy()
    for n in chosen:
        d2[n] = full[n].to_numpy()
    targets = [t for t in nodes if t not in chosen]
    case = {"date": date_iso, "households": names, "supplied_together": len(chosen), "offset": offset, "first": chosen[:3]}
    out.state((date_iso[:4], tuple(names), len(chosen), offset))
    try:
        with warnings.catch_warnings(record=True) as w:
            warnings.simplefilter("always")
            got = compute_taxes_and_transfers(d2, p, f, targets=targets)
    except Exception as e:  # noqa: BLE001
        out.step()
        out.violation(f"multi-override-raises:{type(e).__name__}", case, f"supplying {len(chosen)} computed columns together on {date_iso}: {e!r}"[:300])
        return out.dump()
    out.step()
    keys = list(range(len(df)))
    for col, kind, detail in sim.compare_results(full[targets], got, keys, keys, ulps=0, check_dtype=True)[:5]:
        out.violation(f"multi-override-changes:{col}", {**case, "column": col}, f"supplying {len(chosen)} computed columns together changes {col} ({kind}) on {date_iso}: {detail}")
    text = "\n".join(str(x.message) for x in w if issubclass(x.category, FunctionsAndColumnsOverlapWarning))
    silent = [n for n in chosen if n in must_warn and f'"{n}"' not in text]
    if silent:
        out.violation("override-not-announced:when-many-supplied", {**case, "unannounced": silent[:10], "count": len(silent)},
                      f"{len(silent)} of {len(chosen)} columns that override a rule are not named by any FunctionsAndColumnsOverlapWarning, e.g. {silent[:4]}")
    out.outcome(("many", len(chosen), not silent))
    return out.dump()


def replay(case):
    if "supplied_together" in case:
        k = case["supplied_together"]
        part = task_many((case["date"], case["households"], k, case["offset"]))
        return not part["violations"], "; ".join(x[2] for x in part["violations"][:3])
    p = task((case["date"], case["households"], [case["node"]]))
    return not p["violations"], "; ".join(x[2] for x in p["violations"][:3])


def run(tier):
    rep = Reporter("C05", tier)
    thorough = tier == "thorough"
    dates = [d.isoformat() for d in (popgen.d15() if thorough else popgen.quick_dates(2))]
    pops = [POP, POP2] if thorough else [POP]
    tasks = []
    for d in dates:
        for pop in pops:
            df = popgen.frame(popgen.combined(pop, int(d[:4])))
            try:
                nodes = harness.rotate(sim.all_nodes(d, tuple(df.columns)))
            except Exception:  # noqa: BLE001
                continue
            for k in range(0, len(nodes), 6):
                tasks.append((d, pop, nodes[k : k + 6], thorough or d == dates[-1]))
    for part in harness.pmap(task, harness.rotate(tasks)):
        rep.merge(part)
    many = [(d, pop, k, off) for d in (dates if thorough else dates[-1:]) for pop in pops for k, off in ((2, 0), (21, 0), (21, 37), (40, 11), (80, 3), (None, 0))]
    for part in harness.pmap(task_many, many):
        rep.merge(part)
    rep.bound = {"dates": dates, "populations": pops, "supplied_together": [2, 21, 40, 80, "all rule nodes"]}
    rep.assumptions = ["a warning naming the column is required when the column overrides a policy rule, a grouping or a specified aggregation; automatic sums "
                       "and time-unit conversions of supplied names are by design not created, so there is nothing to override",
                       "the supplied column holds exactly the values (and dtype) the system computed"]
    return rep.finish(
        "per (population, date): for EVERY node n of the default-target graph a second run with column n := the computed values, all other "
        "nodes requested, and rule n replaced by a tripwire function that raises if evaluated; all other nodes must be bit-identical, the "
        "tripwire must not fire, and the overlap warning must name n"
    )
