"""C17 - means-tested benefits are mutually exclusive as the priority rules say."""
from __future__ import annotations

import itertools

import numpy as np

from mc import harness, popgen, sim
from mc.evidence import Partial, Reporter
from mc.popgen import person, retiree, worker

W = [0.0, 200.0, 520.0, 800.0, 1000.0, 1200.0, 1500.0, 1800.0, 2200.0, 2700.0, 3500.0, 6000.0]
W_FINE = [float(x) for x in range(0, 4001, 100)] + [5000.0, 8000.0]


def fam(year, w1, w2, rent, wealth, retired=False, selfsuff=False, married=True, kids=(10, 17)):
    a = dict(p_id_einstandspartner=11, p_id_ehepartner=11 if married else -1, gemeinsam_veranlagt=married, vermögen_bedürft=wealth,
             ges_pflegev_hat_kinder=True)
    b = dict(p_id_einstandspartner=10, p_id_ehepartner=10 if married else -1, gemeinsam_veranlagt=married, weiblich=True, ges_pflegev_hat_kinder=True)
    if retired:
        rows = [retiree(10, 1, 70, year, 30.0, bruttolohn_m=w1, **a), retiree(11, 1, 68, year, 10.0, bruttolohn_m=w2, **b)]
    else:
        rows = [worker(10, 1, 40, year, w1, **a), worker(11, 1, 38, year, w2, **b)]
    pid = 12
    for age in kids:
        ss = selfsuff and age >= 15
        rows.append(person(pid, 1, age, year, p_id_elternteil_1=10, p_id_elternteil_2=11, p_id_kindergeld_empf=10, eigenbedarf_gedeckt=ss,
                           bruttolohn_m=900.0 if ss else 0.0, in_ausbildung=True))
        pid += 1
    for r in rows:
        r.update(bruttokaltmiete_m_hh=rent, wohnfläche_hh=90.0, heizkosten_m_hh=100.0)
    return rows


def single(year, w, rent, wealth, age=35):
    r = worker(10, 1, age, year, w, vermögen_bedürft=wealth)
    r.update(bruttokaltmiete_m_hh=rent, wohnfläche_hh=45.0, heizkosten_m_hh=60.0)
    return [r]


def single_parent(year, w, rent, wealth, unterhalt=0.0):
    rows = [worker(10, 1, 33, year, w, alleinerz=True, weiblich=True, vermögen_bedürft=wealth, ges_pflegev_hat_kinder=True, steuerklasse=2),
            person(11, 1, 7, year, p_id_elternteil_1=10, p_id_kindergeld_empf=10, kind_unterh_anspr_m=300.0, kind_unterh_erhalt_m=unterhalt),
            person(12, 1, 13, year, p_id_elternteil_1=10, p_id_kindergeld_empf=10, kind_unterh_anspr_m=350.0, kind_unterh_erhalt_m=unterhalt)]
    for r in rows:
        r.update(bruttokaltmiete_m_hh=rent, wohnfläche_hh=70.0, heizkosten_m_hh=80.0)
    return rows


def pensioner(year, ep, rent, wealth, priv=0.0):
    r = retiree(10, 1, 72, year, ep, vermögen_bedürft=wealth, priv_rente_m=priv)
    r.update(bruttokaltmiete_m_hh=rent, wohnfläche_hh=45.0, heizkosten_m_hh=60.0)
    return [r]


def mixed(year, w, ep, rent):
    """Retired grandmother, working single parent, child: several needs units in one household."""
    rows = [retiree(10, 1, 75, year, ep, weiblich=True),
            worker(11, 1, 48, year, w, p_id_elternteil_1=10, alleinerz=True, ges_pflegev_hat_kinder=True, steuerklasse=2),
            person(12, 1, 15, year, p_id_elternteil_1=11, p_id_kindergeld_empf=11, kind_unterh_anspr_m=400.0, kind_unterh_erhalt_m=200.0)]
    for r in rows:
        r.update(bruttokaltmiete_m_hh=rent, wohnfläche_hh=100.0, heizkosten_m_hh=110.0)
    return rows


def two_adult_units(year, w, w_sib, rent, kids=1):
    """Single parent with child(ren) plus an adult sibling / flat-mate who is a needs unit of his own: two adult-led units in one household."""
    rows = [worker(10, 1, 36, year, w, alleinerz=True, weiblich=True, ges_pflegev_hat_kinder=True, steuerklasse=2)]
    for j in range(kids):
        rows.append(person(11 + j, 1, 6 + 5 * j, year, p_id_elternteil_1=10, p_id_kindergeld_empf=10, kind_unterh_anspr_m=300.0, kind_unterh_erhalt_m=0.0))
    rows.append(worker(20, 1, 30, year, w_sib))
    for r in rows:
        r.update(bruttokaltmiete_m_hh=rent, wohnfläche_hh=85.0, heizkosten_m_hh=90.0)
    return rows

def retired_parent(year, ep, unterhalt, rent, partner=None, w_partner=0.0, kids=(9, 15), priv=0.0):
    """A pensioner who lives with dependent children: alone, with a retired partner, or with a partner of working age."""
    a = dict(ges_pflegev_hat_kinder=True, priv_rente_m=priv)
    if partner:
        a.update(p_id_einstandspartner=11, p_id_ehepartner=11, gemeinsam_veranlagt=True)
    else:
        a.update(alleinerz=True, steuerklasse=2)
    rows = [retiree(10, 1, 68, year, ep, **a)]
    if partner == "retired":
        rows.append(retiree(11, 1, 67, year, 8.0, weiblich=True, ges_pflegev_hat_kinder=True, p_id_einstandspartner=10, p_id_ehepartner=10, gemeinsam_veranlagt=True))
    elif partner == "working":
        rows.append(worker(11, 1, 45, year, w_partner, weiblich=True, ges_pflegev_hat_kinder=True, p_id_einstandspartner=10, p_id_ehepartner=10,
                           gemeinsam_veranlagt=True))
    for j, age in enumerate(kids):
        rows.append(person(20 + j, 1, age, year, p_id_elternteil_1=10, p_id_elternteil_2=11 if partner else -1, p_id_kindergeld_empf=10,
                           kind_unterh_anspr_m=0.0 if partner else 350.0, kind_unterh_erhalt_m=0.0 if partner else unterhalt, in_ausbildung=age >= 6))
    for r in rows:
        r.update(bruttokaltmiete_m_hh=rent, wohnfläche_hh=75.0, heizkosten_m_hh=85.0)
    return rows


def scenarios(year, fine):
    ws = W_FINE if fine else W
    rents = [300.0, 700.0, 1200.0] if fine else [300.0, 700.0]
    wealths = [0.0, 30000.0, 200000.0] if fine else [0.0, 200000.0]
    for w1, w2, rent, wealth, ss in itertools.product(ws, [0.0, 520.0, 1500.0], rents, wealths, [False, True]):
        yield ("fam", dict(w1=w1, w2=w2, rent=rent, wealth=wealth, selfsuff=ss)), fam(year, w1, w2, rent, wealth, selfsuff=ss)
    for w1, rent in itertools.product(ws, rents):
        yield ("fam-unmarried", dict(w1=w1, rent=rent)), fam(year, w1, 0.0, rent, 0.0, married=False, kids=(5,))
        yield ("fam-retired", dict(w1=w1, rent=rent)), fam(year, w1, 0.0, rent, 0.0, retired=True, kids=())
    for w, rent, wealth in itertools.product(ws, rents, wealths):
        yield ("single", dict(w=w, rent=rent, wealth=wealth)), single(year, w, rent, wealth)
        yield ("single-parent", dict(w=w, rent=rent, wealth=wealth)), single_parent(year, w, rent, wealth)
    for w, rent in itertools.product(ws, rents):
        yield ("single-parent-unterhalt", dict(w=w, rent=rent)), single_parent(year, w, rent, 0.0, unterhalt=300.0)
    for ep, rent, wealth, priv in itertools.product([0.0, 5.0, 10.0, 15.0, 20.0, 30.0, 45.0], rents, wealths, [0.0, 300.0]):
        yield ("pensioner", dict(ep=ep, rent=rent, wealth=wealth, priv=priv)), pensioner(year, ep, rent, wealth, priv)
    for w, ep in itertools.product(ws, [5.0, 15.0, 30.0, 45.0]):
        yield ("mixed", dict(w=w, ep=ep)), mixed(year, w, ep, 800.0)
    sib = [0.0, 450.0, 800.0, 1000.0, 1100.0, 1250.0, 1500.0, 2200.0] if not fine else [float(x) for x in range(0, 2601, 200)]
    for w, ws_, rent, kids in itertools.product(W if fine else ws, sib, [500.0, 750.0, 1100.0], [1, 2]):
        yield ("two-adult-units", dict(w=w, w_sibling=ws_, rent=rent, kids=kids)), two_adult_units(year, w, ws_, rent, kids)


    eps = [0.0, 5.0, 10.0, 15.0, 20.0, 25.0, 30.0, 40.0, 55.0] if not fine else [float(x) for x in range(0, 61, 3)]
    for ep, unterhalt, rent, kids in itertools.product(eps, [0.0, 150.0, 350.0, 700.0], rents, [(9,), (9, 15)]):
        yield ("retired-single-parent", dict(ep=ep, unterhalt=unterhalt, rent=rent, kids=len(kids))), retired_parent(year, ep, unterhalt, rent, kids=kids)
    for ep, priv, rent in itertools.product(eps, [0.0, 400.0], rents):
        yield ("retired-couple-with-child", dict(ep=ep, priv=priv, rent=rent)), retired_parent(year, ep, 0.0, rent, partner="retired", kids=(12,), priv=priv)
    for ep, w in itertools.product(eps[::2], ws):
        yield ("pensioner-working-partner-child", dict(ep=ep, w=w)), retired_parent(year, ep, 0.0, 700.0, partner="working", w_partner=w, kids=(4, 12))


COLS = ["arbeitsl_geld_2_m_bg", "wohngeld_m_wthh", "kinderzuschl_m_bg", "grunds_im_alter_m_eg"]
TARGETS = COLS + ["bg_id", "wthh_id", "fg_id", "eg_id", "kinderzuschl_vorrang_bg", "wohngeld_kinderzuschl_vorrang_bg", "wohngeld_vorrang_bg",
                  "arbeitsl_geld_2_vor_vorrang_m_bg", "wohngeld_anspruchshöhe_m_wthh"]


def judge(out, r, case):
    a = r["arbeitsl_geld_2_m_bg"].to_numpy() > 0
    w = r["wohngeld_m_wthh"].to_numpy() > 0
    k = r["kinderzuschl_m_bg"].to_numpy() > 0
    g = r["grunds_im_alter_m_eg"].to_numpy() > 0
    kv = r["kinderzuschl_vorrang_bg"].to_numpy().astype(bool)
    wkv = r["wohngeld_kinderzuschl_vorrang_bg"].to_numpy().astype(bool)
    for i in range(len(r)):
        vec = (bool(a[i]), bool(w[i]), bool(k[i]), bool(g[i]))
        out.outcome(vec)
        if a[i] and w[i]:
            out.violation("alg2-with-wohngeld", {**case, "row": i}, f"person {i}: ALG II {r['arbeitsl_geld_2_m_bg'].iloc[i]} and Wohngeld {r['wohngeld_m_wthh'].iloc[i]}")
        if a[i] and k[i]:
            out.violation("alg2-with-kinderzuschlag", {**case, "row": i}, f"person {i}: ALG II {r['arbeitsl_geld_2_m_bg'].iloc[i]} and Kinderzuschlag {r['kinderzuschl_m_bg'].iloc[i]}")
        if g[i] and (a[i] or w[i] or k[i]):
            out.violation("grundsicherung-with-other-benefit", {**case, "row": i}, f"person {i}: regime vector (alg2, wohngeld, kiz, grunds) = {vec}")
        if k[i] and not (kv[i] or wkv[i]):
            out.violation("kinderzuschlag-without-priority", {**case, "row": i}, f"person {i}: Kinderzuschlag {r['kinderzuschl_m_bg'].iloc[i]} paid although neither priority flag holds")
    bg = r["bg_id"].to_numpy()
    wt = r["wthh_id"].to_numpy()
    seen = {}
    for b, t in zip(bg.tolist(), wt.tolist()):
        if seen.setdefault(b, t) != t:
            out.violation("bedarfsgemeinschaft-split-over-wthh", case, f"bg_id {b} in wthh {seen[b]} and {t}")
    # one regime per Bedarfsgemeinschaft: the flags are constant within a bg
    for col in ("arbeitsl_geld_2_m_bg", "kinderzuschl_m_bg"):
        vals = {}
        for b, v in zip(bg.tolist(), r[col].tolist()):
            if vals.setdefault(b, v) != v:
                out.violation(f"regime-not-per-bg:{col}", case, f"{col} takes {vals[b]} and {v} in bg {b}")


def task(arg):
    date_iso, chunk_k, nk, fine = arg
    out = Partial()
    year = int(date_iso[:4])
    for idx, ((kind, par), rows) in enumerate(scenarios(year, fine)):
        if idx % nk != chunk_k:
            continue
        df = popgen.frame(rows)
        case = {"date": date_iso, "scenario": kind, "parameters": par, "rows": rows}
        try:
            r = sim.sim(df, date_iso, targets=TARGETS)
        except Exception as e:  # noqa: BLE001
            if sim.known_crash(date_iso, e):
                out.count("sims_skipped_known_C08_crash")
            else:
                out.violation(f"simulation-raises:{type(e).__name__}", case, repr(e)[:300])
            continue
        out.step()
        out.state((date_iso, kind, tuple(sorted(par.items()))))
        judge(out, r, case)
    out.sample({"date": date_iso, "chunk": chunk_k}, limit=1)
    return out.dump()


def replay(case):
    df = popgen.frame(case["rows"])
    r = sim.sim(df, case["date"], targets=TARGETS)
    p = Partial()
    judge(p, r, {"date": case["date"]})
    v = p.d["violations"]
    return not v, "; ".join(x[2] for x in v[:3]) or str(r[COLS].to_dict("list"))


def run(tier):
    rep = Reporter("C17", tier)
    thorough = tier == "thorough"
    dates = [d.isoformat() for d in (popgen.d15() if thorough else popgen.quick_dates(4))]
    nk = 16
    tasks = [(d, k, nk, thorough) for d in dates for k in range(nk)]
    for part in harness.pmap(task, harness.rotate(tasks)):
        rep.merge(part)
    regimes = {o for o in rep.outcomes if isinstance(o, tuple) and len(o) == 4}
    rep.extra["regime_vectors_seen"] = sorted(map(list, regimes))
    need = {(True, False, False, False), (False, True, False, False), (False, False, False, True), (False, False, False, False)}
    kiz = any(o[2] for o in regimes)
    if not need <= regimes or not kiz:
        print("harness error: the sweep does not visit all benefit regimes", sorted(regimes))
        return 2
    rep.bound = {"dates": dates, "wage_grid": W_FINE if thorough else W, "scenarios": ["retired-single-parent", "retired-couple-with-child", "pensioner-working-partner-child", "fam", "fam-unmarried", "fam-retired", "single", "single-parent",
                 "single-parent-unterhalt", "pensioner", "mixed", "two-adult-units"]}
    rep.assumptions = ["a person 'receives' a group-level benefit if the group-level column is positive in that person's row"]
    return rep.finish(
        "nine household scenarios (married/unmarried couple with children incl. a self-sufficient child = two needs units, retired couple, "
        "single, single parent with/without maintenance, pensioner, three generations, two adult-led needs units sharing a household) x sweeps of wages, partner wage, rent, wealth, pension "
        "points across the break-even points of the priority checks x change dates; oracle per person: no ALG II with Wohngeld/Kinderzuschlag, no "
        "Grundsicherung with any of them, Kinderzuschlag only with a priority flag, every Bedarfsgemeinschaft inside one wthh; the run must visit "
        "all regimes (checked)"
    )
