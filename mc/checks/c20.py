"""C20 - malformed input is rejected, type coercion is lossless (exhaustive fault injection)."""
from __future__ import annotations

import itertools
import warnings

import numpy as np
import pandas as pd

from mc import harness, popgen, sim
from mc.evidence import Partial, Reporter
from _gettsim.config import DEFAULT_TARGETS, FOREIGN_KEYS, TYPES_INPUT_VARIABLES
from _gettsim.interface import compute_taxes_and_transfers

POPS = {
    "A": ["couple_kids", "single_parent"],
    "B": ["patchwork", "pensioners"],
    "C": ["three_gen", "parent_elsewhere", "self_employed"],
}
DATE = "2023-01-01"


def base_frame(pop, date_iso=DATE):
    return popgen.frame(popgen.combined(POPS[pop], int(date_iso[:4])))


def run_api(data, date_iso=DATE, targets=None):
    p, f = harness.env(date_iso)
    with warnings.catch_warnings(record=True) as w:
        warnings.simplefilter("always")
        r = compute_taxes_and_transfers(data, p, f, targets=targets)
    return r, [str(x.message) for x in w]


# ---------------------------------------------------------------- fault catalogue
def faults(df, roots):
    """Yield (fault id, description dict, mutated data) for every fault class x every eligible position."""
    n = len(df)
    pids = df["p_id"].tolist()
    # 1 missing p_id
    yield "p_id-missing", {}, df.drop(columns=["p_id"])
    # 2 duplicate p_id
    for i, j in itertools.combinations(range(n), 2):
        d = df.copy()
        d.loc[j, "p_id"] = pids[i]
        yield "p_id-duplicate", {"rows": [i, j]}, d
    # 3 foreign keys
    for fk in FOREIGN_KEYS:
        for i in range(n):
            d = df.copy()
            d.loc[i, fk] = 99999
            yield f"{fk}-dangling", {"row": i}, d
            # every other way of pointing at nobody: only -1 means "no such person"
            absent = [v for v in (max(pids) + 1, min(pids) - 1, 0, -2, -3, -9999, -(2**31)) if v not in pids and v != -1]
            for v in dict.fromkeys(absent):
                d = df.copy()
                d.loc[i, fk] = v
                yield f"{fk}-dangling", {"row": i, "value": int(v)}, d
            d = df.copy()
            d.loc[i, fk] = pids[i]
            yield f"{fk}-self", {"row": i}, d
    # 4 household-level inputs varying within a household
    hh_cols = [c for c in df.columns if c.endswith("_hh")]
    sizes = df.groupby("hh_id")["p_id"].transform("size")
    for c in hh_cols:
        for i in range(n):
            if sizes.iloc[i] < 2:
                continue
            for up in (True, False):
                d = df.copy()
                v = d.loc[i, c]
                if d[c].dtype == bool:
                    d.loc[i, c] = not v
                    if not up:
                        continue
                else:
                    d.loc[i, c] = v + (1 if up else -1)
                yield f"{c}-varies-within-household", {"row": i, "up": up}, d
    # 5 spouses with contradictory joint-assessment flags
    for i in range(n):
        if df.loc[i, "p_id_ehepartner"] >= 0:
            d = df.copy()
            d.loc[i, "gemeinsam_veranlagt"] = not bool(d.loc[i, "gemeinsam_veranlagt"])
            yield "gemeinsam_veranlagt-contradictory", {"row": i}, d
    # 6 required columns missing
    for c in sorted(roots):
        if c in df.columns and c != "p_id":
            yield f"required-column-missing:{c}", {}, df.drop(columns=[c])
    # 7 duplicated column names
    for c in ("bruttolohn_m", "alter", "kind", "hh_id"):
        d = pd.concat([df, df[[c]]], axis=1)
        yield f"duplicate-column:{c}", {}, d
    # 8 columns that cannot be converted without changing a value
    for c in df.columns:
        t = TYPES_INPUT_VARIABLES.get(c)
        if c not in roots or c == "p_id":
            continue
        for i in sorted({0, n - 1}):
            if t is int:
                d = df.copy()
                d[c] = d[c].astype(float)
                d.loc[i, c] = d.loc[i, c] + 0.5
                yield f"int-column-fractional:{c}", {"row": i}, d
                d = df.copy()
                d[c] = d[c].astype(float)
                d.loc[i, c] = d.loc[i, c] + 0.0002
                yield f"int-column-tiny-fraction:{c}", {"row": i}, d
                if c not in ("p_id", *FOREIGN_KEYS) and not c.startswith("p_id_"):
                    d = df.copy()
                    d[c] = d[c].astype(float) * 100000.0 + 100000.0
                    d.loc[i, c] = d.loc[i, c] + 0.4
                    yield f"int-column-large-value-fraction:{c}", {"row": i}, d
                for bad, nm in ((np.nan, "nan"), (np.inf, "inf")):
                    d = df.copy()
                    d[c] = d[c].astype(float)
                    d.loc[i, c] = bad
                    yield f"int-column-{nm}:{c}", {"row": i}, d
            if t is bool:
                d = df.copy()
                d[c] = d[c].astype(float)
                d.loc[i, c] = 0.5
                yield f"bool-column-half:{c}", {"row": i}, d
                d = df.copy()
                d[c] = d[c].astype(float)
                d.loc[i, c] = d.loc[i, c] + 1e-6
                yield f"bool-column-tiny-fraction:{c}", {"row": i}, d
                d = df.copy()
                d[c] = d[c].astype(int)
                d.loc[i, c] = 2
                yield f"bool-column-two:{c}", {"row": i}, d
                d = df.copy()
                d[c] = d[c].astype(float)
                d.loc[i, c] = np.nan
                yield f"bool-column-nan:{c}", {"row": i}, d
            if t is float and i == 0:
                d = df.copy()
                d[c] = d[c] > 0
                yield f"float-column-as-bool:{c}", {}, d
            if i == 0:
                d = df.copy()
                d[c] = d[c].astype(object)
                yield f"object-column:{c}", {}, d
                d = df.copy()
                d[c] = ["x"] * n
                yield f"string-column:{c}", {}, d


def lossless_variants(df, roots):
    """Yield (variant id, column, mutated data): same values in another dtype that holds them exactly."""
    for c in df.columns:
        t = TYPES_INPUT_VARIABLES.get(c)
        if c not in roots:
            continue
        col = df[c]
        if t is int:
            for dt in ("int8", "int16", "int32", "uint8", "uint16", "uint32", "uint64", "float64", "float32"):
                try:
                    conv = col.astype(dt)
                except (ValueError, OverflowError):
                    continue
                if (conv.astype("float64") == col.astype("float64")).all() and (col >= 0).all() | (not dt.startswith("u")):
                    if dt.startswith("u") and (col < 0).any():
                        continue
                    d = df.copy()
                    d[c] = conv
                    yield f"{dt}", c, d
        elif t is float:
            c32 = col.astype("float32")
            if (c32.astype("float64") == col).all():
                d = df.copy()
                d[c] = c32
                yield "float32", c, d
            if (col == np.floor(col)).all() and (col.abs() < 2**31).all():
                for dt in ("int64", "int32"):
                    d = df.copy()
                    d[c] = col.astype(dt)
                    yield dt, c, d
        elif t is bool:
            for dt in ("int64", "int8", "float64"):
                d = df.copy()
                d[c] = col.astype(dt)
                yield f"{dt}-01", c, d


def roots_for(df, date_iso):
    _, f = harness.env(date_iso)
    nodes, dag = sim.node_list(f, tuple(df.columns), DEFAULT_TARGETS)
    return {n for n in dag.nodes if dag.in_degree(n) == 0 and n in df.columns}


def _rejected(data, date_iso=DATE):
    try:
        r, _ = run_api(data, date_iso)
    except Exception as e:  # noqa: BLE001
        return True, f"{type(e).__name__}: {str(e)[:120]}"
    return False, f"simulated: {r.shape}"


def task_faults(arg):
    pop, lo, hi = arg
    out = Partial()
    df = base_frame(pop)
    roots = roots_for(df, DATE)
    allf = list(faults(df, roots))
    for k, (fid, desc, data) in enumerate(allf):
        if not (lo <= k < hi):
            continue
        out.state((pop, fid, str(desc)))
        out.step()
        ok, info = _rejected(data)
        out.outcome(info.split(":")[0])
        if not ok:
            out.violation(f"fault-accepted:{fid}", {"population": pop, "fault": fid, **desc}, f"{fid} {desc} on population {pop}: {info}")
    out.sample({"population": pop, "faults": [allf[lo][0], allf[min(hi, len(allf)) - 1][0]]}, limit=1)
    return out.dump()


def task_pairs(arg):
    """Pairs of faults of different classes (first position of each) must be rejected, too."""
    pop, k, nk = arg
    out = Partial()
    df = base_frame(pop)
    roots = roots_for(df, DATE)
    firsts = {}
    for fid, desc, data in faults(df, roots):
        cls = fid.split(":")[0]
        if cls not in firsts:
            firsts[cls] = (fid, desc, data)
    items = sorted(firsts.items())
    pairs = list(itertools.combinations(range(len(items)), 2))
    for idx, (a, b) in enumerate(pairs):
        if idx % nk != k:
            continue
        (ca, (fa, da, A)), (cb, (fb, db, B)) = items[a], items[b]
        # compose: take every column that differs from the base in either mutant
        data = A.copy()
        ok_compose = True
        for c in B.columns:
            if c not in df.columns or list(B.columns).count(c) > 1:
                ok_compose = False
                break
            if c not in data.columns:
                continue
            try:
                if not B[c].equals(df[c]):
                    data[c] = B[c].to_numpy()
            except Exception:  # noqa: BLE001
                ok_compose = False
                break
        missing_b = [c for c in df.columns if c not in B.columns]
        if missing_b:
            data = data.drop(columns=[c for c in missing_b if c in data.columns])
        if not ok_compose:
            continue
        out.state((pop, fa, fb))
        out.step()
        ok, info = _rejected(data)
        if not ok:
            out.violation(f"fault-pair-accepted:{ca}+{cb}", {"population": pop, "faults": [fa, fb]}, info)
    return out.dump()


def task_lossless(arg):
    pop, k, nk = arg
    out = Partial()
    df = base_frame(pop)
    roots = roots_for(df, DATE)
    base, wbase = run_api(df)
    if any("have been converted" in m for m in wbase):
        out.violation("baseline-announces-conversion", {"population": pop}, str(wbase)[:300])
    for idx, (vid, c, data) in enumerate(lossless_variants(df, roots)):
        if idx % nk != k:
            continue
        out.state((pop, vid, c))
        out.step()
        case = {"population": pop, "column": c, "dtype": vid}
        try:
            r, w = run_api(data)
        except Exception as e:  # noqa: BLE001
            out.violation(f"lossless-variant-rejected:{vid}:{c}", case, repr(e)[:300])
            continue
        diffs = sim.compare_results(base, r, df["p_id"].tolist(), df["p_id"].tolist(), ulps=0, check_dtype=True)
        if diffs:
            out.violation(f"lossless-variant-changes-results:{vid}:{c}", {**case, "diffs": diffs[:5]}, f"{c} as {vid}: {diffs[:3]}")
        converted = str(data[c].dtype) != str(df[c].dtype)
        internal = TYPES_INPUT_VARIABLES[c]
        kind_same = {float: "f", int: "iu", bool: "b"}[internal]
        needs_conv = data[c].dtype.kind not in kind_same
        announced = any(f" - {c} from" in m for m in w)
        if needs_conv and not announced:
            out.violation(f"conversion-not-announced:{vid}:{c}", case, f"warnings: {[m[:80] for m in w]}")
        out.outcome((vid, needs_conv, announced))
    return out.dump()

def _declared(func):
    """Internal type gettsim derives for a column that overrides `func` (mirrors interface._convert_data_to_correct_types)."""
    from typing import get_args

    ann = getattr(func, "__annotations__", {})
    if "return" not in ann:
        return None
    t = ann["return"]
    if getattr(func, "__info__", None) and func.__info__.get("skip_vectorization"):
        t = get_args(t)[0]
    return t if t in (float, int, bool, np.datetime64) else None


def override_faults(col, t):
    """Malformed versions of a computed column that is fed back as data and typed by its rule's return annotation."""
    n = len(col)
    x = col.to_numpy()
    last = n - 1
    yield "strings", pd.Series(["x"] * n)
    if t is float:
        yield "as-bool", pd.Series(x > 0)
    if t is int:
        for nm, bump in (("fractional", 0.5), ("tiny-fraction", 0.0002), ("nan", np.nan), ("inf", np.inf)):
            for i in (0, last):
                y = x.astype(float)
                y[i] = y[i] + bump if nm in ("fractional", "tiny-fraction") else bump
                yield f"{nm}@{i}", pd.Series(y)
    if t is bool:
        for nm, v in (("half", 0.5), ("tiny-fraction", 1e-6), ("nan", np.nan)):
            y = x.astype(float)
            y[last] = (y[last] + v) if nm == "tiny-fraction" else v
            yield nm, pd.Series(y)
        y = x.astype(int)
        y[0] = 2
        yield "two", pd.Series(y)
    if t is np.datetime64:
        years = x.astype("datetime64[Y]").astype(int) + 1970
        yield "int-years", pd.Series(years.astype(np.int64))
        yield "float-years", pd.Series(years.astype(float))
        yf = years.astype(float)
        yf[last] = np.nan
        yield "float-years-with-nan", pd.Series(yf)
        yield "float-years-fractional", pd.Series(years.astype(float) + 0.5)
        yield "nullable-int-years", pd.Series(years.astype(np.int64), dtype="Int64")
        yield "int-yyyymmdd", pd.Series((years * 10000 + 101).astype(np.int64))
        yield "bool", pd.Series(years > 1980)
        yield "object-python-ints", pd.Series([int(v) for v in years], dtype=object)
        yield "nanoseconds-as-int", pd.Series(x.astype("datetime64[ns]").astype(np.int64))


def override_lossless(col, t):
    x = col.to_numpy()
    if t is int:
        yield "float64-whole", pd.Series(x.astype(float))
        if (np.abs(x) < 2**31).all():
            yield "int32", pd.Series(x.astype(np.int32))
    if t is bool:
        yield "int-01", pd.Series(x.astype(np.int64))
        yield "float-01", pd.Series(x.astype(float))
    if t is float:
        if (x.astype(np.float32).astype(float) == x).all():
            yield "float32", pd.Series(x.astype(np.float32))
        if np.isfinite(x).all() and (x == np.floor(x)).all() and (np.abs(x) < 2**31).all():
            yield "int64-whole", pd.Series(x.astype(np.int64))
    if t is np.datetime64:
        for unit in ("ns", "s", "D"):
            yield f"datetime64[{unit}]", pd.Series(x.astype(f"datetime64[{unit}]"))


def task_override(arg):
    """Faults and lossless variants in columns that OVERRIDE a rule (typed by the rule's return annotation, not by the input table)."""
    pop, k, nk = arg
    out = Partial()
    df = base_frame(pop)
    p, f = harness.env(DATE)
    nodes = sim.all_nodes(DATE, tuple(df.columns))
    dag = sim.dag_for(DATE, tuple(df.columns))
    with warnings.catch_warnings():
        warnings.simplefilter("ignore")
        full = compute_taxes_and_transfers(df, p, f, targets=nodes)
    rules = [n for n in nodes if n in f and n not in df.columns and _declared(f[n]) is not None and n in dag]
    for idx, n in enumerate(rules):
        if idx % nk != k:
            continue
        t = _declared(f[n])
        succ = [s_ for s_ in dag.successors(n) if s_ in nodes][:3]
        if not succ:
            continue
        d2 = df.copy()
        d2[n] = full[n].to_numpy()
        try:
            with warnings.catch_warnings():
                warnings.simplefilter("ignore")
                ref_ = compute_taxes_and_transfers(d2, p, f, targets=succ)
        except Exception as e:  # noqa: BLE001
            out.count("override_reference_runs_raising")
            out.setadd("override_reference_errors", f"{n}:{type(e).__name__}")
            continue
        for fid, bad in override_faults(full[n], t):
            case = {"population": pop, "overriding_column": n, "declared": t.__name__, "override_fault": fid}
            out.state((pop, n, fid))
            out.step()
            d3 = df.copy()
            d3[n] = bad.to_numpy() if bad.dtype != object and str(bad.dtype) != "Int64" else bad.values
            try:
                with warnings.catch_warnings():
                    warnings.simplefilter("ignore")
                    r = compute_taxes_and_transfers(d3, p, f, targets=succ)
                out.violation(f"fault-accepted:overriding-{t.__name__}-column:{fid.split('@')[0]}", case,
                              f"{n} (declared {t.__name__}) supplied as {fid} ({str(bad.dtype)}: {bad.tolist()[:3]}...) was simulated without complaint: {r.shape}")
                out.outcome("simulated")
            except Exception as e:  # noqa: BLE001
                out.outcome(type(e).__name__)
        for vid, good in override_lossless(full[n], t):
            case = {"population": pop, "overriding_column": n, "declared": t.__name__, "override_dtype": vid}
            out.state((pop, n, vid))
            out.step()
            d3 = df.copy()
            d3[n] = good.to_numpy()
            try:
                with warnings.catch_warnings(record=True) as w:
                    warnings.simplefilter("always")
                    r = compute_taxes_and_transfers(d3, p, f, targets=succ)
            except Exception as e:  # noqa: BLE001
                out.violation(f"lossless-variant-rejected:overriding-{t.__name__}-column:{vid}", case, f"{n} as {vid}: {e!r}"[:300])
                continue
            keys = df["p_id"].tolist()
            diffs = sim.compare_results(ref_, r, keys, keys, ulps=0, check_dtype=True)
            if diffs:
                out.violation(f"lossless-variant-changes-results:overriding-{t.__name__}-column:{vid}", {**case, "diffs": diffs[:3]}, f"{n} as {vid}: {diffs[:3]}")
            kind_same = {float: "f", int: "iu", bool: "b", np.datetime64: "M"}[t]
            if good.dtype.kind not in kind_same and not any(f" - {n} from" in str(m.message) for m in w):
                out.violation(f"conversion-not-announced:overriding-{t.__name__}-column:{vid}", case, f"{n} as {vid}")
    return out.dump()


def replay(case):
    if "overriding_column" in case:
        df = base_frame(case["population"])
        p, f = harness.env(DATE)
        nodes = sim.all_nodes(DATE, tuple(df.columns))
        rules = [n for n in nodes if n in f and n not in df.columns and _declared(f[n]) is not None]
        part = None
        for nk in (len(rules),):
            part = task_override((case["population"], rules.index(case["overriding_column"]), nk))
        key = case.get("override_fault") or case.get("override_dtype")
        v = [x for x in part["violations"] if (x[1].get("override_fault") or x[1].get("override_dtype")) == key]
        return not v, "; ".join(x[2] for x in v[:2])
    pop = case["population"]
    df = base_frame(pop)
    roots = roots_for(df, DATE)
    if "fault" in case:
        for fid, desc, data in faults(df, roots):
            if fid == case["fault"] and all(case.get(k) == v for k, v in desc.items()):
                ok, info = _rejected(data)
                return ok, f"{fid} {desc}: {info}"
    if "dtype" in case:
        base, _ = run_api(df)
        for vid, c, data in lossless_variants(df, roots):
            if vid == case["dtype"] and c == case["column"]:
                r, w = run_api(data)
                diffs = sim.compare_results(base, r, df["p_id"].tolist(), df["p_id"].tolist())
                return not diffs, f"{c} as {vid}: {diffs[:3]}"
    return True, "case not found"


def run(tier):
    rep = Reporter("C20", tier, level="fault_enumeration")
    thorough = tier == "thorough"
    pops = list(POPS) if thorough else ["A", "B"]
    tasks = []
    for pop in pops:
        df = base_frame(pop)
        total = sum(1 for _ in faults(df, roots_for(df, DATE)))
        chunk = max(1, total // 24 + 1)
        tasks += [(pop, lo, lo + chunk) for lo in range(0, total, chunk)]
        rep.extra[f"faults_population_{pop}"] = total
    for part in harness.pmap(task_faults, harness.rotate(tasks)):
        rep.merge(part)
    for part in harness.pmap(task_pairs, [(pop, k, 16) for pop in pops for k in range(16)]):
        rep.merge(part)
    for part in harness.pmap(task_lossless, [(pop, k, 16) for pop in pops for k in range(16)]):
        rep.merge(part)
    for part in harness.pmap(task_override, [(pop, k, 32) for pop in (pops if thorough else pops[:1]) for k in range(32)]):
        rep.merge(part)
    rep.bound = {"populations": {k: POPS[k] for k in pops}, "date": DATE, "fault_pairs": "first position of every fault class, all unordered pairs"}
    rep.assumptions = ["a fault counts as rejected if compute_taxes_and_transfers raises any exception before returning a result",
                       "lossless variants: only dtypes that represent every value of the column exactly"]
    return rep.finish(
        "every fault class (missing/duplicate p_id, each of the 4 foreign keys dangling / self, each _hh column varying within a household, "
        "contradictory joint-assessment flags, each required column missing, duplicated column, non-convertible dtypes) injected at every "
        "eligible row/column of the base populations, all pairs of fault classes; every lossless dtype variant of every required input "
        "column must leave all default targets bit-identical and be announced when a conversion happens"
    )
