"""C13 - time-unit variants of a column differ exactly by the documented factors."""
from __future__ import annotations

import re
import warnings
from fractions import Fraction

import numpy as np

from mc import harness, popgen, sim
from mc.evidence import Partial, Reporter
from _gettsim import time_conversion as TC
from _gettsim.config import DEFAULT_TARGETS, SUPPORTED_GROUPINGS, TYPES_INPUT_VARIABLES
from _gettsim.functions_loader import load_and_check_functions

UNITS = "ymwd"
PER_YEAR = {"y": Fraction(1), "m": Fraction(12), "w": Fraction(36525, 700), "d": Fraction(36525, 100)}
_RE = re.compile(r"(?P<base>.*_)(?P<unit>[ymwd])(?P<agg>" + "|".join(f"_{g}" for g in SUPPORTED_GROUPINGS) + ")?")


def split(name):
    m = _RE.fullmatch(name)
    if not m:
        return None
    return m.group("base"), m.group("unit"), m.group("agg") or ""


def variants(name):
    b, u, a = split(name)
    return {v: f"{b}{v}{a}" for v in UNITS}


def rel_close(a, b, rtol):
    a = np.asarray(a, dtype=float)
    b = np.asarray(b, dtype=float)
    return (a == b) | (np.abs(a - b) <= rtol * np.maximum(np.abs(a), np.abs(b))) | (np.isnan(a) & np.isnan(b))


def check_converters(rep):
    """The 12 converter functions against exact Fractions, and round trips."""
    vals = [0.0, 1.0, -1.0, 0.01, 450.0, 520.0, 1234.56, 1e6 + 0.37, 2.0**-20, 9999999.99, -250.5, 3.0, 7.0, 365.25, 12.0]
    for a in UNITS:
        for b in UNITS:
            if a == b:
                continue
            fn = TC._time_conversion_functions[f"{a}_to_{b}"]
            back = TC._time_conversion_functions[f"{b}_to_{a}"]
            factor = PER_YEAR[a] / PER_YEAR[b]  # value per a -> value per b
            for x in vals:
                rep.state(("converter", a, b, x))
                rep.step()
                got = fn(x)
                want = Fraction(x) * factor
                if abs(Fraction(got) - want) > Fraction(1, 10**14) * max(abs(want), Fraction(1, 10**300)) and not (got == 0 and want == 0):
                    rep.violation(f"converter:{a}_to_{b}", {"value": x, "got": got, "exact": float(want)}, f"{a}_to_{b}({x}) = {got!r}, exact {float(want)!r}")
                rt = back(got)
                if abs(rt - x) > 4 * np.spacing(abs(x)) and x != 0:
                    rep.violation(f"converter:round-trip:{a}->{b}->{a}", {"value": x, "got": rt}, f"{x} -> {got} -> {rt}")
            # arrays must behave like scalars
            arr = np.array(vals)
            if not np.array_equal(np.asarray(fn(arr)), np.array([fn(v) for v in vals])):
                rep.violation(f"converter:{a}_to_{b}:array-differs-from-scalar", {}, "")


SIGNED_INPUTS = ["kapitaleink_brutto_m", "eink_selbst_m", "eink_vermietung_m"]


def variant_frame(df, variant):
    """Population variants for the ratio stage: incomes that may legally be losses turned negative; every timed amount scaled up."""
    df = df.copy()
    if variant == "losses":
        for c in SIGNED_INPUTS:
            if c in df.columns:
                x = df[c].to_numpy(dtype=float)
                df[c] = np.where(x != 0, -np.abs(x), -137.55)
    elif variant == "scaled":
        for c in timed_inputs(df):
            if c not in ("wohnfläche_hh",):
                df[c] = df[c].to_numpy(dtype=float) * 37.3
    return df


def check_handwritten_converters(rep, dates):
    """Every hand-written rule whose only argument is its own name in another time unit, on a signed value alphabet."""
    import inspect

    vals = [0.0, 0.01, -0.01, 1.0, -1.0, 250.5, -250.5, 1234.56, -1234.56, 1e6 + 0.37, -(1e6 + 0.37), 2.0**-20, -(2.0**-20), 9999999.99, -9999999.99]
    seen = set()
    for d in dates:
        _, funcs = harness.env(d)
        for name, fn in sorted(funcs.items()):
            sp = split(name)
            if not sp:
                continue
            args = [a for a in inspect.signature(fn).parameters if not a.endswith("_params")]
            if len(args) != 1 or len(inspect.signature(fn).parameters) != 1:
                continue
            sa = split(args[0])
            if not sa or sa[0] != sp[0] or sa[2] != sp[2] or sa[1] == sp[1]:
                continue
            key = (name, getattr(fn, "__code__", None) and fn.__code__.co_code)
            if key in seen:
                continue
            seen.add(key)
            factor = PER_YEAR[sa[1]] / PER_YEAR[sp[1]]
            for x in vals:
                rep.state(("handwritten-converter", name, x))
                rep.step()
                try:
                    got = float(fn(x))
                except Exception as e:  # noqa: BLE001
                    rep.violation(f"handwritten-converter-raises:{name}", {"date": d, "value": x}, repr(e)[:200])
                    continue
                want = Fraction(x) * factor
                if abs(Fraction(got) - want) > Fraction(1, 10**12) * abs(want):
                    rep.violation(f"handwritten-converter:{name}", {"date": d, "rule": name, "argument": args[0], "value": x, "got": got, "exact": float(want)},
                                  f"{name}({args[0]}={x!r}) = {got!r} on {d}, but {float(factor)} x {x!r} = {float(want)!r}")
                rep.outcome(("handwritten-converter", name))
    rep.extra["handwritten_converter_rules"] = len(seen)


def task_ratios(arg):
    date_iso, names, *rest = arg
    variant = rest[0] if rest else "library"
    out = Partial()
    year = int(date_iso[:4])
    df = variant_frame(popgen.frame(popgen.combined(names, year)), variant)
    cols = list(df.columns)
    p, f = harness.env(date_iso)
    try:
        nodes = sim.all_nodes(date_iso, tuple(cols))
    except Exception as e:  # noqa: BLE001
        out.violation(f"graph-raises:{type(e).__name__}", {"date": date_iso}, repr(e)[:300])
        return out.dump()
    timed = sorted(n for n in set(nodes) | set(cols) if split(n))
    families = {}
    for n in timed:
        b, u, a = split(n)
        families.setdefault((b, a), set()).add(u)
    want = set()
    for (b, a), have in families.items():
        for u in UNITS:
            want.add(f"{b}{u}{a}")
    targets = sorted(want - set(cols))
    # which of them exist as functions at all?
    fn, fo = load_and_check_functions(f, sorted(set(DEFAULT_TARGETS) | set(targets)), cols, {}, {})
    missing = [t for t in targets if t not in fn]
    for t in missing:
        b, u, a = split(t)
        out.violation(f"variant-unavailable:{t}", {"date": date_iso, "name": t, "existing_units": sorted(families[(b, a)])},
                      f"{t} cannot be requested on {date_iso} although {b}{sorted(families[(b, a)])[0]}{a} exists")
    targets = [t for t in targets if t in fn]
    try:
        r = sim.sim(df, date_iso, targets=targets + [c for c in ("hh_id",) if False])
    except Exception as e:  # noqa: BLE001
        if sim.known_crash(date_iso, e):
            out.count("sims_skipped_known_C08_crash")
        else:
            out.violation(f"simulation-raises:{type(e).__name__}:{str(e)[:60]}", {"date": date_iso, "households": names}, repr(e)[:400])
        return out.dump()
    out.step()
    vals = {**{c: df[c].to_numpy() for c in cols}, **{c: r[c].to_numpy() for c in r.columns}}
    # group ids for the commutation check
    try:
        idr = sim.sim(df, date_iso, targets=[f"{g}_id" for g in SUPPORTED_GROUPINGS if g != "hh"])
        gids = {g: idr[f"{g}_id"].to_numpy() for g in SUPPORTED_GROUPINGS if g != "hh"}
    except Exception:  # noqa: BLE001
        gids = {}
    gids["hh"] = df["hh_id"].to_numpy()
    for (b, a), have in sorted(families.items()):
        names4 = {u: f"{b}{u}{a}" for u in UNITS}
        if not all(n in vals for n in names4.values()):
            continue
        out.state((date_iso[:4], b, a))
        yearly = {u: np.asarray(vals[names4[u]], dtype=float) * float(PER_YEAR[u]) for u in UNITS}
        ref_u = sorted(have)[0]
        for u in UNITS:
            ok = rel_close(yearly[u], yearly[ref_u], 1e-12)
            if not ok.all():
                i = int(np.argmin(ok))
                out.violation(f"ratio:{b}{u}{a}", {"date": date_iso, "households": names, "variant": variant, "names": names4, "row": i,
                                                   "values": {k: float(np.asarray(vals[v], dtype=float)[i]) for k, v in names4.items()}},
                              f"{names4[u]} x {float(PER_YEAR[u])} = {yearly[u][i]!r} but {names4[ref_u]} x {float(PER_YEAR[ref_u])} = {yearly[ref_u][i]!r} on {date_iso}")
        # conversion commutes with group summation (only where the group-level name is an automatic sum of an individual-level one)
        if a:
            g = a[1:]
            for u in UNITS:
                ind = f"{b}{u}"
                if ind in vals and g in gids and names4[u] not in f and names4[u] not in cols:
                    pass
        out.outcome((b, a, tuple(sorted(have))))
    out.sample({"date": date_iso, "households": names, "families": len(families), "targets": len(targets)}, limit=1)
    return out.dump()


def task_group_commute(arg):
    """x_u_g (automatic group sum) equals the group sum of x_u for all four units."""
    date_iso, names = arg
    out = Partial()
    year = int(date_iso[:4])
    df = popgen.frame(popgen.combined(names, year))
    inds = ["bruttolohn_m", "kapitaleink_brutto_m", "eink_selbst_m", "kindergeld_m", "elterngeld_m", "ges_rente_m", "unterhaltsvors_m", "arbeitsl_geld_m"]
    groups = ["hh", "fg", "bg", "eg", "sn"]
    targets = []
    for n in inds:
        b, u, a = split(n)
        for v in UNITS:
            if f"{b}{v}" not in df.columns:
                targets.append(f"{b}{v}")
            for g in groups:
                targets.append(f"{b}{v}_{g}")
    targets += [f"{g}_id" for g in groups if g != "hh"]
    try:
        r = sim.sim(df, date_iso, targets=sorted(set(targets)))
    except Exception as e:  # noqa: BLE001
        if sim.known_crash(date_iso, e):
            out.count("sims_skipped_known_C08_crash")
        else:
            out.violation(f"group-commute:simulation-raises:{type(e).__name__}:{str(e)[:60]}", {"date": date_iso, "households": names}, repr(e)[:400])
        return out.dump()
    out.step()
    vals = {**{c: df[c].to_numpy() for c in df.columns}, **{c: r[c].to_numpy() for c in r.columns}}
    for n in inds:
        b, u, a = split(n)
        for g in groups:
            gid = vals[f"{g}_id"]
            for v in UNITS:
                ind = np.asarray(vals[f"{b}{v}"], dtype=float)
                grp = np.asarray(vals[f"{b}{v}_{g}"], dtype=float)
                sums = {}
                for k, x in zip(gid.tolist(), ind.tolist()):
                    sums[k] = sums.get(k, 0.0) + x
                want = np.array([sums[k] for k in gid.tolist()])
                out.state((date_iso[:4], b, v, g))
                ok = rel_close(grp, want, 1e-12)
                if not ok.all():
                    i = int(np.argmin(ok))
                    out.violation(f"group-sum:{b}{v}_{g}", {"date": date_iso, "households": names, "row": i}, f"{b}{v}_{g} = {grp[i]!r}, group sum of {b}{v} = {want[i]!r}")
    return out.dump()


def timed_inputs(df):
    out = []
    for c in df.columns:
        s = split(c)
        if s and TYPES_INPUT_VARIABLES.get(c) is float and not c.startswith(("m_", "y_")):
            out.append(c)
    return out


def task_inputs(arg):
    """Supplying a timed input in another unit gives the same results."""
    date_iso, names, cols_subset = arg
    out = Partial()
    year = int(date_iso[:4])
    df = popgen.frame(popgen.combined(names, year))
    # generic values: a unit conversion changes the last bits of a number; statutory thresholds and floor/ceil steps inside rules would turn
    # that into a visible jump when an input sits exactly on them (e.g. a wage of exactly 450), which is not what the property is about
    for c in timed_inputs(df):
        x = df[c].to_numpy(dtype=float)
        df[c] = np.where(x != 0, x * 1.0001234 + 0.1371, x)
    try:
        nodes = sim.all_nodes(date_iso, tuple(df.columns))
        base = sim.sim(df, date_iso, targets=nodes, rounding=False)
    except Exception as e:  # noqa: BLE001
        if sim.known_crash(date_iso, e):
            out.count("sims_skipped_known_C08_crash")
        else:
            out.violation(f"simulation-raises:{type(e).__name__}", {"date": date_iso, "households": names}, repr(e)[:300])
        return out.dump()
    for c in cols_subset:
        b, u, a = split(c)
        for v in UNITS:
            if v == u:
                continue
            new = f"{b}{v}{a}"
            conv = TC._time_conversion_functions[f"{u}_to_{v}"]
            d2 = df.drop(columns=[c])
            d2[new] = conv(df[c].to_numpy(dtype=float))
            case = {"date": date_iso, "households": names, "input": c, "supplied_as": new}
            out.state((date_iso[:4], tuple(names), c, v))
            try:
                tg = [n for n in nodes if n != new]
                got = sim.sim(d2, date_iso, targets=tg, rounding=False)
            except Exception as e:  # noqa: BLE001
                out.step()
                out.violation(f"input-in-other-unit-fails:input={c}:unit={v}", case, f"{c} supplied as {new} on {date_iso}: {e!r}"[:400])
                continue
            out.step()
            for col in tg:
                if col not in base.columns:
                    continue
                x, y = base[col].to_numpy(), got[col].to_numpy()
                if col.endswith("_id"):
                    if sim.partition(x, range(len(x))) != sim.partition(y, range(len(y))):
                        out.violation(f"input-in-other-unit-changes:{col}:input={c}", {**case, "column": col}, "partition differs")
                    continue
                if x.dtype.kind == "f" or y.dtype.kind == "f":
                    ok = rel_close(x, y, 1e-9)
                else:
                    ok = sim.col_equal(x, y)
                if not ok.all():
                    i = int(np.argmin(ok))
                    out.violation(f"input-in-other-unit-changes:{col}:input={c}", {**case, "column": col, "row": i},
                                  f"{col}: {x[i]!r} with {c}, {y[i]!r} with {new} on {date_iso}")
    out.sample({"date": date_iso, "households": names, "inputs": cols_subset[:3]}, limit=1)
    return out.dump()

def task_derived_nodes(arg):
    """A DERIVED node (group aggregate, person-pointer aggregate - anything the policy environment does not define as a hand-written rule)
    supplied as data in another time unit: the supplied values, converted, are what every unit variant and every consumer sees.
    (A hand-written rule of the same base name keeps precedence over a converted data column by design - see create_time_conversion_functions.)
    Differential oracle: data + {n_v: y} must give exactly what data + {n: converter(y)} gives; y are marker values, not the computed ones."""
    date_iso, names, subset = arg
    out = Partial()
    year = int(date_iso[:4])
    df = popgen.frame(popgen.combined(names, year))
    _, funcs = harness.env(date_iso)
    try:
        nodes = sim.all_nodes(date_iso, tuple(df.columns))
        base = sim.sim(df, date_iso, targets=nodes)
    except Exception as e:  # noqa: BLE001
        if sim.known_crash(date_iso, e):
            out.count("sims_skipped_known_C08_crash")
        else:
            out.violation(f"simulation-raises:{type(e).__name__}", {"date": date_iso, "households": names}, repr(e)[:300])
        return out.dump()
    for n in subset:
        if n not in base.columns or base[n].dtype.kind != "f":
            continue
        b, u, a = split(n)
        marker = base[n].to_numpy() + 1.37
        if a:  # a group-level column must stay constant within its group
            pass  # the computed column is constant within the group, so is computed + 1.37
        for v in UNITS:
            new = f"{b}{v}{a}"
            if v == u or new in funcs or new in df.columns:
                continue
            y = TC._time_conversion_functions[f"{u}_to_{v}"](marker)
            back = TC._time_conversion_functions[f"{v}_to_{u}"](y)
            sibs = set(variants(n).values())
            tg = [t for t in nodes if t not in sibs]
            case = {"date": date_iso, "households": names, "derived_node": n, "supplied_as": new}
            out.state((date_iso[:4], tuple(names), n, v))
            try:
                with warnings.catch_warnings():
                    warnings.simplefilter("ignore")
                    da, db = df.copy(), df.copy()
                    da[new] = y
                    db[n] = back
                    ga = sim.sim(da, date_iso, targets=tg + [n])
                    gb = sim.sim(db, date_iso, targets=tg)
            except Exception as e:  # noqa: BLE001
                out.step()
                out.violation(f"derived-node-in-other-unit-fails:node={n}:unit={v}", case, f"{n} supplied as {new} on {date_iso}: {e!r}"[:400])
                continue
            out.step(2)
            if not sim.col_equal(ga[n].to_numpy(), back, ulps=2).all():
                i = int(np.argmin(sim.col_equal(ga[n].to_numpy(), back, ulps=2)))
                out.violation(f"supplied-unit-variant-ignored:node={n}", {**case, "row": i},
                              f"{new} was supplied ({y[i]!r}); {n} is {ga[n].to_numpy()[i]!r} instead of the converted {back[i]!r} on {date_iso}")
                continue
            keys = list(range(len(df)))
            for col, kind, detail in sim.compare_results(gb[tg], ga[tg], keys, keys, ulps=2, check_dtype=True)[:4]:
                out.violation(f"derived-node-in-other-unit-changes:{col}:node={n}", {**case, "column": col},
                              f"{col} differs ({kind}) between supplying {new} and supplying the same values as {n} on {date_iso}: {detail}")
            out.outcome((n in funcs, v))
    out.sample({"date": date_iso, "households": names, "derived_nodes": subset[:3]}, limit=1)
    return out.dump()


def replay(case):
    if "rule" in case and "argument" in case:
        _, funcs = harness.env(case["date"])
        sp, sa = split(case["rule"]), split(case["argument"])
        got = float(funcs[case["rule"]](case["value"]))
        want = float(Fraction(case["value"]) * PER_YEAR[sa[1]] / PER_YEAR[sp[1]])
        return abs(got - want) <= 1e-12 * abs(want), f"{case['rule']}({case['value']}) = {got}, exact {want}"
    if "variant" in case and "names" in case:
        part = task_ratios((case["date"], case["households"], case["variant"]))
        v = [x for x in part["violations"] if x[1].get("names") == case["names"]]
        return not v, "; ".join(x[2] for x in v[:2])
    if "derived_node" in case:
        part = task_derived_nodes((case["date"], case["households"], [case["derived_node"]]))
        v = [x for x in part["violations"] if x[1].get("supplied_as") == case["supplied_as"]]
        return not v, "; ".join(x[2] for x in v[:2])
    if "supplied_as" in case:
        date_iso, names, c, new = case["date"], case["households"], case["input"], case["supplied_as"]
        p = task_inputs((date_iso, names, [c]))
        v = [x for x in p["violations"] if new in x[2] or f"unit={split(new)[1]}" in x[0]]
        return not v, "; ".join(x[2] for x in v[:2])
    return True, "re-run the check"


def run(tier):
    rep = Reporter("C13", tier)
    thorough = tier == "thorough"
    check_converters(rep)
    dates = [d.isoformat() for d in (popgen.d15() if thorough else popgen.quick_dates(4))]
    combos = [["couple_kids", "single_parent", "pensioners"], ["patchwork", "parental_leave", "unemployed", "self_employed"],
              ["three_gen", "poor_pensioner", "erwerbsgemindert", "young_adult", "parent_elsewhere", "single"]]
    check_handwritten_converters(rep, [d.isoformat() for d in popgen.d15()])
    for part in harness.pmap(task_ratios, harness.rotate([(d, c, v) for d in dates for c in combos for v in ("library", "losses", "scaled")])):
        rep.merge(part)
    for part in harness.pmap(task_group_commute, harness.rotate([(d, c) for d in dates for c in combos])):
        rep.merge(part)
    in_dates = dates if thorough else dates[1:3]
    tasks = []
    for d in in_dates:
        for c in combos:
            df = popgen.frame(popgen.combined(c, int(d[:4])))
            ti = timed_inputs(df)
            for k in range(0, len(ti), 2):
                tasks.append((d, c, ti[k : k + 2]))
    for part in harness.pmap(task_inputs, harness.rotate(tasks)):
        rep.merge(part)
    dtasks = []
    for d in (dates[::6] if thorough else dates[-1:]):
        for c in (combos if thorough else combos[:2]):
            df = popgen.frame(popgen.combined(c, int(d[:4])))
            try:
                nodes = sim.all_nodes(d, tuple(df.columns))
            except Exception:  # noqa: BLE001
                continue
            _, funcs = harness.env(d)
            derived = [n for n in nodes if split(n) and n not in funcs and n not in df.columns]
            for k in range(0, len(derived), 2):
                dtasks.append((d, c, derived[k : k + 2]))
    for part in harness.pmap(task_derived_nodes, harness.rotate(dtasks)):
        rep.merge(part)
    rep.bound = {"dates": dates, "input_dates": in_dates, "household_sets": combos, "derived_node_tasks": len(dtasks)}
    rep.assumptions = ["factors: 12 months, 365.25/7 weeks, 365.25 days per year; ratios compared to 1e-12 relative, results with a converted input to 1e-9 relative "
                       "(integers, booleans and id partitions exactly)"]
    return rep.finish(
        "every name with a time suffix (with or without group suffix) among the nodes and data columns of the default-target graph x dates x "
        "household sets: all four unit variants requested together and compared by the fixed factors; every timed float input supplied in each "
        "other unit must reproduce all nodes; automatic group sums of all four units vs. group sums of the individual-level variants; the 12 "
        "converters vs exact Fractions incl. round trips; the ratio stage repeated with loss-making capital / self-employment / rental income and with all "
        "timed amounts scaled by 37.3; every hand-written one-argument converter rule of every date class on a signed value alphabet"
    )
