"""C15 - every computed column with a group suffix has one value per group."""
from __future__ import annotations

import numpy as np

from mc import harness, popgen, sim
from mc.evidence import Partial, Reporter
from _gettsim.config import SUPPORTED_GROUPINGS


def group_of(name):
    for g in SUPPORTED_GROUPINGS:
        if name.endswith(f"_{g}"):
            return g
    return None


def check_result(out, df, r, case, input_label):
    ids = {}
    for g in SUPPORTED_GROUPINGS:
        c = f"{g}_id"
        if c in r.columns:
            ids[g] = r[c].to_numpy()
        elif c in df.columns:
            ids[g] = df[c].to_numpy()
    n_checked = 0
    bad = {}
    for node in r.columns:
        g = group_of(node)
        if g is None or g not in ids or node.endswith("_id"):
            continue
        vals = r[node].to_numpy()
        gid = ids[g]
        n_checked += 1
        seen = {}
        for v, k in zip(vals.tolist(), gid.tolist()):
            if k in seen:
                a = seen[k]
                if not (a == v or (a != a and v != v)):
                    bad[node] = (g, k, a, v)
                    break
            else:
                seen[k] = v
    if bad:
        dag = sim.dag_for(case["date"], tuple(df.columns))
        for node, (g, k, a, v) in bad.items():
            parents = set(dag.predecessors(node)) if node in dag else set()
            if parents & set(bad):
                out.count("nonconstant_nodes_explained_by_nonconstant_parent")
                continue
            out.violation(f"node={node}:input={input_label}", {**case, "node": node, "group_id_column": f"{g}_id", "group": k, "values": [a, v],
                                                                "downstream_nonconstant": sorted(set(bad) - {node})},
                          f"{node} has values {a!r} and {v!r} within {g}_id={k} on {case['date']} (varying input: {input_label})")
    return n_checked


def task(arg):
    date_iso, label, items = arg
    out = Partial()
    for input_label, rows in items:
        df = popgen.frame(rows)
        case = {"date": date_iso, "population": label, "varying_input": input_label, "rows": rows}
        try:
            r = sim.sim_all(df, date_iso)
        except Exception as e:  # noqa: BLE001
            if sim.known_crash(date_iso, e):
                out.count("sims_skipped_known_C08_crash")
            else:
                out.violation(f"simulation-raises:{type(e).__name__}:input={input_label}", case, repr(e)[:300])
            continue
        out.step()
        out.state((date_iso, label, input_label, repr(sorted((r_["p_id"], r_.get(input_label.split("=")[0])) for r_ in rows if isinstance(r_, dict)))))
        k = check_result(out, df, r, case, input_label.split("=")[0])
        out.count("group_columns_checked", k)
    out.sample({"date": date_iso, "population": label, "cases": len(items), "first": items[0][0] if items else None}, limit=1)
    return out.dump()


def replay(case):
    df = popgen.frame(case["rows"])
    r = sim.sim_all(df, case["date"])
    p = Partial()
    check_result(p, df, r, {"date": case["date"]}, case.get("varying_input", "?").split("=")[0])
    v = p.d["violations"]
    return not v, "; ".join(x[2] for x in v[:3])


def run(tier):
    rep = Reporter("C15", tier)
    thorough = tier == "thorough"
    dates = [d.isoformat() for d in (popgen.d15() if thorough else popgen.quick_dates(3))]
    tasks = []
    for d in dates:
        year = int(d[:4])
        for name in popgen.LIBRARY:
            rows = popgen.library_rows(name, year)
            items = [("base", rows)]
            if len(rows) >= 2:
                for i, col, v, new in popgen.deviations(rows, year, reduced=True, max_alts=None if thorough else 1, individual=True):
                    if col.endswith("_hh"):
                        continue  # supplied group-level inputs are validated to be constant
                    items.append((f"{col}={v}@row{i}", new))
            for k in range(0, len(items), 25):
                tasks.append((d, name, items[k : k + 25]))
    for part in harness.pmap(task, harness.rotate(tasks)):
        rep.merge(part)
    rep.bound = {"dates": dates, "households": list(popgen.LIBRARY), "deviation_bound_k": 1,
                 "alternatives_per_input": "reduced alphabet (3)" if thorough else "1 (farthest alternative)"}
    rep.assumptions = ["group membership is taken from the computed *_id nodes of the same run (hh_id from the data)",
                       "every individual-level input (incl. mietstufe, wohnort_ost) is varied for one member of a group at a time; _hh inputs are not "
                       "varied because the interface rejects that"]
    return rep.finish(
        "library households x every individual-level input varied for one person at a time (members of a group then differ in that input) x "
        "dates, all nodes of the default-target graph; oracle: every node whose name carries a group suffix takes one value per group of the "
        "matching *_id; a state is (date, household, varied input, value, person)"
    )
