"""C15 - every computed column with a group suffix has one value per group."""
from __future__ import annotations

import collections
import itertools

import re

import numpy as np

from mc import harness, popgen, sim
from mc.evidence import Partial, Reporter
from _gettsim.config import SUPPORTED_GROUPINGS


def group_of(name):
    for g in SUPPORTED_GROUPINGS:
        if name.endswith(f"_{g}"):
            return g
    return None


def check_result(out, df, r, case, input_label):
    ids = {}
    for g in SUPPORTED_GROUPINGS:
        c = f"{g}_id"
        if c in r.columns:
            ids[g] = r[c].to_numpy()
        elif c in df.columns:
            ids[g] = df[c].to_numpy()
    n_checked = 0
    bad = {}
    for node in r.columns:
        g = group_of(node)
        if g is None or g not in ids or node.endswith("_id"):
            continue
        vals = r[node].to_numpy()
        gid = ids[g]
        n_checked += 1
        seen = {}
        for v, k in zip(vals.tolist(), gid.tolist()):
            if k in seen:
                a = seen[k]
                if not (a == v or (a != a and v != v)):
                    bad[node] = (g, k, a, v)
                    break
            else:
                seen[k] = v
    if bad:
        dag = sim.dag_for(case["date"], tuple(df.columns))
        for node, (g, k, a, v) in bad.items():
            parents = set(dag.predecessors(node)) if node in dag else set()
            if parents & set(bad):
                out.count("nonconstant_nodes_explained_by_nonconstant_parent")
                continue
            out.violation(f"node={node}:input={input_label}", {**case, "node": node, "group_id_column": f"{g}_id", "group": k, "values": [a, v],
                                                                "downstream_nonconstant": sorted(set(bad) - {node})},
                          f"{node} has values {a!r} and {v!r} within {g}_id={k} on {case['date']} (varying input: {input_label})")
    return n_checked


def task(arg):
    date_iso, label, items = arg
    out = Partial()
    for input_label, rows in items:
        df = popgen.frame(rows)
        case = {"date": date_iso, "population": label, "varying_input": input_label, "rows": rows}
        try:
            r = sim.sim_all(df, date_iso)
        except Exception as e:  # noqa: BLE001
            if sim.known_crash(date_iso, e):
                out.count("sims_skipped_known_C08_crash")
            else:
                out.violation(f"simulation-raises:{type(e).__name__}:input={input_label}", case, repr(e)[:300])
            continue
        out.step()
        out.state((date_iso, label, input_label, repr(sorted((r_["p_id"], r_.get(input_label.split("=")[0])) for r_ in rows if isinstance(r_, dict)))))
        k = check_result(out, df, r, case, input_label.split("=")[0])
        out.count("group_columns_checked", k)
    out.sample({"date": date_iso, "population": label, "cases": len(items), "first": items[0][0] if items else None}, limit=1)
    return out.dump()

_GROUP_LEVEL_NAME = re.compile(r"_(" + "|".join(SUPPORTED_GROUPINGS) + r")(_|$)")


def task_rules(names):
    """Every hand-written group-level rule of every validity period, evaluated directly: changing an individual-level argument (one
    that members of a group may differ in) while all group-level arguments stay fixed must not change the value - otherwise two members of
    the same group get different values.  Typed argument alphabets, base tuple + single + pairwise deviations (as in C03's synthetic stage)."""
    import datetime
    import inspect

    from mc.checks.c03 import SYN, _int_alphabet, _same_value, synthetic_tuples
    from _gettsim.functions_loader import load_internal_functions
    from _gettsim.interface import _round_and_partial_parameters_to_functions

    out = Partial()
    fs = load_internal_functions()
    for name in names:
        func = fs[name]
        info = getattr(func, "__info__", {}) or {}
        dn = info.get("name_in_dag", name)
        args = [a for a in inspect.signature(func).parameters if not a.endswith("_params")]
        ind = [a for a in args if not _GROUP_LEVEL_NAME.search(a) and not a.endswith("_id")]
        s0 = max(info.get("start_date", datetime.date(1, 1, 1)), datetime.date(1985, 1, 1))
        e0 = min(info.get("end_date", datetime.date(9999, 12, 31)), datetime.date(2031, 1, 1))
        if s0 > e0:
            continue
        span = (e0 - s0).days
        cand = sorted({s0, e0, s0 + datetime.timedelta(days=span // 2)})
        out.state(("group-rule", name))
        if not ind:
            out.count("group_rules_without_individual_arguments")
            out.outcome("no-individual-argument")
            continue
        out.count("group_rules_with_individual_arguments")
        out.setadd("individual_arguments_of_group_rules", f"{dn}<-{','.join(ind)}")
        for d in cand:
            try:
                p, _ = harness.env(d.isoformat())
                raw = _round_and_partial_parameters_to_functions({dn: func}, p, rounding=False)[dn]
            except Exception:  # noqa: BLE001
                out.count("group_rule_partial_failed")
                continue
            args2, T = synthetic_tuples(func, year=d.year)
            ann = func.__annotations__
            for t in T:
                try:
                    with np.errstate(all="ignore"):
                        v0 = raw(**dict(zip(args2, t)))
                except Exception:  # noqa: BLE001
                    continue
                for a in ind:
                    i = args2.index(a)
                    for alt in (_int_alphabet(a, d.year) if ann.get(a) is int else SYN.get(ann.get(a), [0.0, 1.0, 235.85])):
                        if alt == t[i]:
                            continue
                        t2 = t[:i] + (alt,) + t[i + 1:]
                        try:
                            with np.errstate(all="ignore"):
                                v1 = raw(**dict(zip(args2, t2)))
                        except Exception:  # noqa: BLE001
                            continue
                        out.step()
                        if not _same_value(v0, v1):
                            out.violation(f"node={dn}:input={a}",
                                          {"date": d.isoformat(), "function": name, "node": dn, "individual_argument": a,
                                           "arguments": {k: (x.item() if hasattr(x, "item") else x) for k, x in zip(args2, t)}, "alternative": alt},
                                          f"group-level rule {name} ({dn}) on {d}: with all group-level arguments fixed, {a}={t[i]!r} gives {v0!r} "
                                          f"but {a}={alt!r} gives {v1!r} - members of one group that differ in {a} get different values")
                            out.outcome("depends-on-individual-argument")
    return out.dump()


def replay(case):
    if "individual_argument" in case:
        part = task_rules([case["function"]])
        v = [x for x in part["violations"] if x[0] == f"node={case['node']}:input={case['individual_argument']}"]
        return not v, "; ".join(x[2] for x in v[:1])
    df = popgen.frame(case["rows"])
    r = sim.sim_all(df, case["date"])
    p = Partial()
    check_result(p, df, r, {"date": case["date"]}, case.get("varying_input", "?").split("=")[0])
    v = p.d["violations"]
    return not v, "; ".join(x[2] for x in v[:3])


def run(tier):
    rep = Reporter("C15", tier)
    thorough = tier == "thorough"
    dates = [d.isoformat() for d in (popgen.d15() if thorough else popgen.quick_dates(3))]
    tasks = []
    for d in dates:
        year = int(d[:4])
        for name in popgen.LIBRARY:
            rows = popgen.library_rows(name, year)
            items = [("base", rows)]
            if len(rows) >= 2:
                for i, col, v, new in popgen.deviations(rows, year, reduced=True, max_alts=None if thorough else 1, individual=True):
                    if col.endswith("_hh"):
                        continue  # supplied group-level inputs are validated to be constant
                    items.append((f"{col}={v}@row{i}", new))
            for k in range(0, len(items), 25):
                tasks.append((d, name, items[k : k + 25]))
    # row layouts in which the rows of one group are NOT adjacent and the derived ids are sparse: two / three households in one table,
    # round-robin across households, adults before children, reversed
    names = list(popgen.LIBRARY)
    n_layout = 0
    for d in dates:
        year = int(d[:4])
        ring = [[names[i], names[(i + 1) % len(names)]] for i in range(len(names))]
        ring += [[names[i], names[(i + 5) % len(names)], names[(i + 9) % len(names)]] for i in range(0, len(names), 1 if thorough else 3)]
        for combo in ring:
            rows = popgen.combined(combo, year)
            by_hh = collections.OrderedDict()
            for r_ in rows:
                by_hh.setdefault(r_["hh_id"], []).append(r_)
            robin = [r_ for grp in itertools.zip_longest(*by_hh.values()) for r_ in grp if r_ is not None]
            items = [("layout=round-robin", robin), ("layout=adults-first", sorted(rows, key=lambda r_: -r_["alter"])),
                     ("layout=round-robin-reversed", robin[::-1])]
            tasks_l = (d, "+".join(combo), items)
            tasks.append(tasks_l)
            n_layout += len(items)
    for part in harness.pmap(task, harness.rotate(tasks)):
        rep.merge(part)
    from _gettsim.functions_loader import load_internal_functions

    gs = tuple(f"_{g}" for g in SUPPORTED_GROUPINGS)
    grules = sorted(n for n, fn in load_internal_functions().items()
                    if (getattr(fn, "__info__", {}) or {}).get("name_in_dag", n).endswith(gs) and not (getattr(fn, "__info__", {}) or {}).get("skip_vectorization"))
    for part in harness.pmap(task_rules, [grules[k::32] for k in range(32)]):
        rep.merge(part)
    rep.bound = {"dates": dates, "households": list(popgen.LIBRARY), "deviation_bound_k": 1, "row_layout_cases": n_layout, "group_level_rules_all_periods": len(grules),
                 "alternatives_per_input": "reduced alphabet (3)" if thorough else "1 (farthest alternative)"}
    rep.assumptions = ["group membership is taken from the computed *_id nodes of the same run (hh_id from the data)",
                       "every individual-level input (incl. mietstufe, wohnort_ost) is varied for one member of a group at a time; _hh inputs are not "
                       "varied because the interface rejects that"]
    return rep.finish(
        "library households x every individual-level input varied for one person at a time (members of a group then differ in that input) x "
        "dates, all nodes of the default-target graph; oracle: every node whose name carries a group suffix takes one value per group of the "
        "matching *_id; a state is (date, household, varied input, value, person); two / three households in one table with rows round-robin across "
        "households, adults first, and reversed (groups not adjacent, derived ids sparse)"
    )
