"""C01 - results do not depend on the order of rows (or on index labels)."""
from __future__ import annotations

import itertools

import numpy as np
import pandas as pd

from mc import harness, popgen, sim
from mc.evidence import Partial, Reporter

COMBOS = [
    ["single", "poor_pensioner", "unemployed"],
    ["pensioners", "single"],
    ["young_adult", "erwerbsgemindert"],
    ["self_employed", "poor_pensioner"],
    ["parent_elsewhere", "unemployed"],
    ["three_gen", "single"],
    ["two_selfsufficient", "single"],
    ["two_selfsufficient", "poor_pensioner", "unemployed"],
]


def base_sets(year):
    out = [(n, popgen.library_rows(n, year)) for n in popgen.LIBRARY]
    out += [("+".join(c), popgen.combined(c, year)) for c in COMBOS]
    return out


def compare(out, base, got, keys_base, keys_got, case, prefix=""):
    diffs = sim.compare_results(base, got, keys_base, keys_got, ulps=4, check_dtype=True, row_scale=True)
    for col, kind, detail in diffs:
        out.violation(f"{prefix}{kind}:{col}", {**case, "column": col, "kind": kind}, f"{col}: {kind} differs under {case.get('what', 'permutation')} {case.get('row_order')}: {detail}")
    return not diffs


def task_perms(arg):
    date_iso, label, rows, perms, what = arg
    out = Partial()
    df = popgen.frame(rows)
    keys = df["p_id"].tolist()
    try:
        base = sim.sim_all(df, date_iso)
    except Exception as e:  # noqa: BLE001
        if sim.known_crash(date_iso, e):
            out.count("sims_skipped_known_C08_crash")
        else:
            out.violation(f"simulation-raises:{type(e).__name__}", {"date": date_iso, "population": label}, repr(e)[:300])
        return out.dump()
    out.state((date_iso, label, what))
    for perm in perms:
        if list(perm) == list(range(len(df))):
            continue
        d2 = df.iloc[list(perm)].reset_index(drop=True)
        case = {"date": date_iso, "population": label, "rows": rows, "row_order": list(perm), "what": what}
        try:
            got = sim.sim_all(d2, date_iso)
        except Exception as e:  # noqa: BLE001
            out.violation(f"permuted-simulation-raises:{type(e).__name__}", case, repr(e)[:300])
            continue
        out.step()
        if len(got) != len(d2):
            out.violation("row-count", case, f"{len(got)} rows for {len(d2)} input rows")
            continue
        ok = compare(out, base, got, keys, d2["p_id"].tolist(), case)
        out.outcome((label, ok))
    out.sample({"date": date_iso, "population": label, "permutations": len(perms), "what": what}, limit=1)
    return out.dump()

BIG_ORDERS = ["reversed", "youngest-first", "oldest-first", "half-turn", "even-then-odd", "pointers-first"]


def big_order(df, name):
    n = len(df)
    idx = np.arange(n)
    if name == "reversed":
        return idx[::-1]
    if name == "youngest-first":  # children far ahead of the adults they point to
        return np.argsort(df["alter"].to_numpy(), kind="stable")
    if name == "oldest-first":
        return np.argsort(-df["alter"].to_numpy(), kind="stable")
    if name == "half-turn":
        return np.roll(idx, n // 2)
    if name == "even-then-odd":
        return np.concatenate([idx[::2], idx[1::2]])
    has_ptr = np.zeros(n, dtype=bool)  # persons that point to somebody first, everyone pointed to at the end
    for c in popgen.POINTERS:
        has_ptr |= df[c].to_numpy() >= 0
    return np.argsort(~has_ptr, kind="stable")


def task_big_orders(arg):
    """A table of more than a thousand rows (relabelled copies of all library households) in several global row orders."""
    date_iso, nrows = arg
    from mc.checks.c02 import filler_rows

    out = Partial()
    year = int(date_iso[:4])
    df = popgen.frame(filler_rows(year, nrows))
    keys = df["p_id"].tolist()
    try:
        base = sim.sim_all(df, date_iso)
    except Exception as e:  # noqa: BLE001
        if sim.known_crash(date_iso, e):
            out.count("sims_skipped_known_C08_crash")
        else:
            out.violation(f"simulation-raises:{type(e).__name__}", {"date": date_iso, "big_table_rows": nrows}, repr(e)[:300])
        return out.dump()
    for name in BIG_ORDERS:
        order = big_order(df, name)
        d2 = df.iloc[order].reset_index(drop=True)
        case = {"date": date_iso, "big_table_rows": nrows, "rows": len(df), "row_order": name, "what": "global order of a long table"}
        out.state((date_iso, nrows, name))
        try:
            got = sim.sim_all(d2, date_iso)
        except Exception as e:  # noqa: BLE001
            out.violation(f"permuted-simulation-raises:{type(e).__name__}", case, repr(e)[:300])
            continue
        out.step()
        ok = compare(out, base, got, keys, d2["p_id"].tolist(), case, prefix="long-table:")
        out.outcome(("long-table", name, ok))
    return out.dump()

ID_LABELS = [720, 730, 710, 1905, 15, 400, 99, 100, 101, 5000, 31, 64]  # survey-style unit numbers: large, not in ascending order


def task_supplied_ids(arg):
    """A derived unit id supplied as a data column with survey-style labels (large, unordered), in every order of the household blocks,
    rotations and the reversed order: results keyed by p_id must not depend on the row order."""
    date_iso, label, rows, id_col = arg
    out = Partial()
    df = popgen.frame(rows)
    try:
        first = sim.sim(df, date_iso, targets=[id_col])
    except Exception as e:  # noqa: BLE001
        if sim.known_crash(date_iso, e):
            out.count("sims_skipped_known_C08_crash")
        else:
            out.violation(f"simulation-raises:{type(e).__name__}", {"date": date_iso, "population": label}, repr(e)[:300])
        return out.dump()
    ids = first[id_col].tolist()
    uniq = list(dict.fromkeys(ids))
    if len(uniq) > len(ID_LABELS):
        return out.dump()
    relabel = dict(zip(uniq, ID_LABELS))
    df[id_col] = np.array([relabel[x] for x in ids], dtype=np.int64)
    keys = df["p_id"].tolist()
    try:
        base = sim.sim_all(df, date_iso)
    except Exception as e:  # noqa: BLE001
        if sim.known_crash(date_iso, e):
            out.count("sims_skipped_known_C08_crash")
        else:
            out.violation(f"simulation-raises:{type(e).__name__}", {"date": date_iso, "population": label, "supplied_id": id_col}, repr(e)[:300])
        return out.dump()
    n = len(df)
    hh = df["hh_id"].tolist()
    blocks = [[i for i in range(n) if hh[i] == h] for h in dict.fromkeys(hh)]
    orders = set()
    for bp in itertools.permutations(blocks):
        orders.add(tuple(i for b in bp for i in b))
        orders.add(tuple(i for b in bp for i in reversed(b)))
    for k in range(1, n):
        orders.add(tuple(range(k, n)) + tuple(range(k)))
    orders.discard(tuple(range(n)))
    out.state((date_iso, label, id_col))
    for perm in sorted(orders):
        d2 = df.iloc[list(perm)].reset_index(drop=True)
        case = {"date": date_iso, "population": label, "rows": rows, "row_order": list(perm), "supplied_id": id_col, "what": f"{id_col} supplied as data"}
        try:
            got = sim.sim_all(d2, date_iso)
        except Exception as e:  # noqa: BLE001
            out.violation(f"permuted-simulation-raises:{type(e).__name__}", case, repr(e)[:300])
            continue
        out.step()
        ok = compare(out, base, got, keys, d2["p_id"].tolist(), case, prefix=f"supplied-{id_col}:")
        out.outcome((label, id_col, ok))
    return out.dump()


def task_index(arg):
    """Index labellings: values by position must not change; one output row per input row in input order."""
    date_iso, label, rows = arg
    out = Partial()
    df = popgen.frame(rows)
    n = len(df)
    try:
        base = sim.sim_all(df, date_iso)
    except Exception as e:  # noqa: BLE001
        if sim.known_crash(date_iso, e):
            out.count("sims_skipped_known_C08_crash")
        else:
            out.violation(f"simulation-raises:{type(e).__name__}", {"date": date_iso, "population": label}, repr(e)[:300])
        return out.dump()
    labellings = {
        "reversed-ints": list(range(n - 1, -1, -1)),
        "offset-ints": [100 + 7 * i for i in range(n)],
        "shuffled-ints": [(i * 3 + 1) % n if n % 3 else (i * 2 + 1) % n if n % 2 else (n - 1 - i) for i in range(n)],
        "strings": [f"person_{chr(97 + (n - i) % 26)}{i}" for i in range(n)],
        "all-equal": [0] * n,
        "floats": [i + 0.5 for i in range(n)],
    }
    for lname, idx in labellings.items():
        for order in ("identity", "reversed"):
            d2 = df.iloc[::-1].reset_index(drop=True) if order == "reversed" else df.copy()
            d2.index = pd.Index(idx)
            case = {"date": date_iso, "population": label, "rows": rows, "index": idx, "labelling": lname, "order": order, "what": f"index labelling {lname}"}
            try:
                got = sim.sim_all(d2, date_iso)
            except Exception as e:  # noqa: BLE001
                out.violation(f"index:{lname}:simulation-raises:{type(e).__name__}", case, repr(e)[:300])
                continue
            out.step()
            out.state((date_iso, label, lname, order))
            if len(got) != n:
                out.violation(f"index:{lname}:row-count", case, f"{len(got)} rows for {n} input rows")
                continue
            compare(out, base, got, df["p_id"].tolist(), d2["p_id"].tolist(), case, prefix=f"index:{lname}:")
            # output row i belongs to input row i
            if "p_id" in got.columns and got["p_id"].tolist() != d2["p_id"].tolist():
                out.violation(f"index:{lname}:output-order", case, "")
    return out.dump()


def task_ids_api(arg):
    """Id partitions through the API for every valid structure and every row order."""
    from mc.checks import c12
    from mc.ref import units as ref

    rs, date_iso = arg
    n = len(rs)
    out = Partial()
    env = harness.env(date_iso)
    perms = list(itertools.permutations(range(n)))
    for rs_, ages, hh, partner, par in popgen.structures_for_roles(rs):
        if not popgen.structure_valid(ages, hh, partner, par, n):
            continue
        kids = sorted({c for c, _ in ref.fg_children(ages, hh, par)})
        eig = [i in kids[-1:] for i in range(n)]
        married = any(p >= 0 for p in partner)
        out.add_states(1)
        parts = {}
        for perm in perms:
            df = c12._api_frame(perm, ages, hh, partner, par, married, eig)
            case = c12._case(rs, ages, hh, partner, par, perm, {"married": married, "eigenbedarf": eig, "date": date_iso})
            try:
                r = sim.sim(df, date_iso, targets=c12.ID_TARGETS, env=env)
            except Exception as e:  # noqa: BLE001
                out.violation("ids-api:exception:" + type(e).__name__, case, repr(e)[:200])
                continue
            out.step()
            for name in c12.ID_TARGETS:
                pt = c12._part(r[name].to_numpy(), perm)
                if name in parts and parts[name][0] != pt:
                    out.violation(f"ids-api:partition:{name}", {**case, "other_order": parts[name][1]},
                                  f"{name}: {c12._fmt(pt)} in order {list(perm)} vs {c12._fmt(parts[name][0])} in order {parts[name][1]}")
                parts.setdefault(name, (pt, list(perm)))
    return out.dump()


def replay(case):
    if "supplied_id" in case:
        part = task_supplied_ids((case["date"], case["population"], case["rows"], case["supplied_id"]))
        bad = [v for v in part["violations"] if v[1].get("row_order") == case.get("row_order")]
        return not bad, "; ".join(v[2] for v in bad[:3])
    if "big_table_rows" in case:
        part = task_big_orders((case["date"], case["big_table_rows"]))
        bad = [v for v in part["violations"] if v[1].get("row_order") == case.get("row_order")]
        return not bad, "; ".join(v[2] for v in bad[:3])
    date_iso = case["date"]
    if "rows" not in case:
        return True, "re-run the check"
    df = popgen.frame(case["rows"])
    base = sim.sim_all(df, date_iso)
    if "index" in case:
        d2 = df.iloc[::-1].reset_index(drop=True) if case["order"] == "reversed" else df.copy()
        d2.index = pd.Index(case["index"])
    else:
        d2 = df.iloc[case["row_order"]].reset_index(drop=True)
    got = sim.sim_all(d2, date_iso)
    diffs = sim.compare_results(base, got, df["p_id"].tolist(), d2["p_id"].tolist(), ulps=4, row_scale=True)
    return not diffs, f"{diffs[:5]}"


def run(tier):
    rep = Reporter("C01", tier)
    thorough = tier == "thorough"
    dates = [d.isoformat() for d in (popgen.d15() if thorough else popgen.quick_dates(3))]
    tasks = []
    for d in dates:
        year = int(d[:4])
        for label, rows in base_sets(year):
            n = len(rows)
            if n < 2:
                continue
            perms = list(itertools.permutations(range(n)))
            for k in range(0, len(perms), 24):
                tasks.append((d, label, rows, perms[k : k + 24], "all permutations"))
    # the same populations relabelled to the dense ids 0..n-1 (ids that coincide with row positions in the identity order)
    from mc.checks.c02 import relabel

    for d in (dates if thorough else dates[:1]):
        year = int(d[:4])
        for label, rows in base_sets(year):
            n = len(rows)
            if n < 3 or n > 5:
                continue
            perms = list(itertools.permutations(range(n)))
            for k in range(0, len(perms), 24):
                tasks.append((d, label + "/zero-based-ids", relabel(rows, "zero-based"), perms[k : k + 24], "dense ids x all permutations"))
    # single-attribute deviations x rotations (every row comes first once)
    dev_dates = dates[2::6] if thorough else dates[1:2]
    allperm_dates = set(dev_dates[:2])
    for d in dev_dates:
        year = int(d[:4])
        for name in popgen.LIBRARY:
            rows = popgen.library_rows(name, year)
            n = len(rows)
            if n < 2:
                continue
            if thorough and n <= 3 and d in allperm_dates:
                perms = list(itertools.permutations(range(n)))
            else:
                perms = [tuple(range(k, n)) + tuple(range(k)) for k in range(1, n)] + [tuple(reversed(range(n)))]
                perms = sorted(set(perms))
            for i, col, v, new in popgen.deviations(rows, year, reduced=True, max_alts=None if thorough else 1):
                tasks.append((d, f"{name}[{i}].{col}={v}", new, perms, "deviation x rotations"))
    for part in harness.pmap(task_perms, harness.rotate(tasks), chunksize=2):
        rep.merge(part)
    big = [(d, n) for d in (dates[::5] if thorough else dates[-1:]) for n in ((1030, 2060, 4400) if thorough else (1030, 2060))]
    for part in harness.pmap(task_big_orders, big):
        rep.merge(part)
    sid = [(d, "+".join(c), popgen.combined(c, int(d[:4])), col) for d in (dates[::6] if thorough else dates[-1:]) for c in COMBOS + [["couple_kids", "patchwork", "single_parent"]]
           for col in ("fg_id", "bg_id", "sn_id", "eg_id")]
    for part in harness.pmap(task_supplied_ids, harness.rotate(sid)):
        rep.merge(part)
    itasks = [(d, label, rows) for d in (dates if thorough else dates[-1:]) for label, rows in base_sets(int(d[:4]))]
    for part in harness.pmap(task_index, harness.rotate(itasks)):
        rep.merge(part)
    if thorough:
        ids = [(rs, "2023-01-01") for n in (2, 3) for rs in itertools.product("KYAR", repeat=n)]
        for part in harness.pmap(task_ids_api, harness.rotate(ids)):
            rep.merge(part)
    rep.bound = {"dates": dates, "populations": [l for l, _ in base_sets(2023)], "max_rows_all_permutations": 6,
                 "deviation_bound_k": 1, "long_tables": {"rows": sorted({n for _, n in big}), "orders": BIG_ORDERS}, "deviation_dates": dev_dates, "float_tolerance_ulps": 4}
    rep.assumptions = ["floats are compared to 4 ulp, taken at the largest magnitude among the person's values (a re-associated group sum over >= 3 members differs by an ulp of the summands, and a later subtraction keeps that absolute error); "
                       "integers, booleans, dates, dtypes and id partitions are compared exactly",
                       "direct all-order exploration of the grouping functions is part of C12"]
    return rep.finish(
        "library households and multi-household combinations x all row permutations (up to 6 rows = 720 orders) x dates; single-attribute "
        "deviations x rotations so that every row comes first; index labellings (reversed, offset, shuffled, strings, all-equal, floats) in two "
        "row orders; all nodes of the default-target graph requested, results keyed by p_id, id columns compared as partitions; a state is "
        "(date, population, exploration kind)"
    )
