"""Run the real implementation: all-nodes simulation and comparison helpers."""
from __future__ import annotations

import functools
import warnings

import numpy as np
import pandas as pd

from mc import harness
from _gettsim.config import DEFAULT_TARGETS, SUPPORTED_GROUPINGS
from _gettsim.functions_loader import load_and_check_functions
from _gettsim.interface import compute_taxes_and_transfers, set_up_dag

ID_COLS = tuple(f"{g}_id" for g in SUPPORTED_GROUPINGS)


def node_list(functions, cols, targets=None):
    """Every computable node of the DAG of `targets` given data columns `cols`."""
    targets = list(DEFAULT_TARGETS if targets is None else targets)
    fn, fo = load_and_check_functions(functions, targets, list(cols), {}, {})
    dag = set_up_dag(fn, targets, set(fo), "ignore")
    return sorted(n for n in dag.nodes if n in fn), dag


@functools.lru_cache(maxsize=256)
def _nodes_cached(date_iso, cols):
    _, f = harness.env(date_iso)
    nodes, dag = node_list(f, cols)
    return tuple(nodes), dag


def all_nodes(date_iso, cols):
    return list(_nodes_cached(date_iso, tuple(cols))[0])


def dag_for(date_iso, cols):
    """networkx DiGraph of the default-target graph for these data columns."""
    return _nodes_cached(date_iso, tuple(cols))[1]


def sim(df, date_iso, targets=None, env=None, **kw):
    p, f = env if env is not None else harness.env(date_iso)
    with warnings.catch_warnings():
        warnings.simplefilter("ignore")
        return compute_taxes_and_transfers(df, p, f, targets=targets, **kw)


def sim_all(df, date_iso, env=None, **kw):
    """All nodes of the default-target graph as targets."""
    if env is None:
        nodes = all_nodes(date_iso, tuple(df.columns))
    else:
        nodes = node_list(env[1], tuple(df.columns))[0]
    return sim(df, date_iso, targets=nodes, env=env, **kw)


# ------------------------------------------------------------------ comparisons
def _ulp_close(a, b, ulps):
    a = np.asarray(a, dtype=float)
    b = np.asarray(b, dtype=float)
    both_nan = np.isnan(a) & np.isnan(b)
    eq = (a == b) | both_nan
    if ulps == 0 or eq.all():
        return eq
    tol = ulps * np.spacing(np.maximum(np.abs(a), np.abs(b)))
    with np.errstate(invalid="ignore"):
        return eq | (np.abs(a - b) <= tol)


def col_equal(a, b, ulps=0):
    """Element-wise equality of two value arrays; floats to `ulps`, everything else exact."""
    a = np.asarray(a)
    b = np.asarray(b)
    if a.shape != b.shape:
        return np.zeros(max(len(a), len(b)), dtype=bool)
    if a.dtype.kind == "f" or b.dtype.kind == "f":
        try:
            return _ulp_close(a, b, ulps)
        except (TypeError, ValueError):
            return np.array([x == y for x, y in zip(a.tolist(), b.tolist())])
    if a.dtype.kind in "mM" or b.dtype.kind in "mM":
        try:
            return (a.astype("datetime64[s]") == b.astype("datetime64[s]")) | (np.isnat(a) & np.isnat(b))
        except (TypeError, ValueError):
            return np.array([x == y for x, y in zip(a.tolist(), b.tolist())])
    return np.asarray(a == b)


def partition(ids, keys):
    d = {}
    for k, g in zip(keys, ids):
        d.setdefault(g, set()).add(k)
    return frozenset(frozenset(v) for v in d.values())


def kind_of(arr):
    return np.asarray(arr).dtype.kind


def compare_results(ref: pd.DataFrame, got: pd.DataFrame, key_ref, key_got, ulps=0, check_dtype=True, skip=(), row_scale=False):
    """Compare two result frames keyed by person; id columns as partitions.

    `row_scale`: the float tolerance (`ulps`) is taken at the largest magnitude among the person's float values instead of at the value
    itself.  A re-associated group sum differs by an ulp of the SUMMANDS' magnitude; a later subtraction (need minus income) keeps that
    absolute error while the value shrinks, so a tolerance relative to the small result would flag legitimate re-association.

    Returns a list of (column, kind, detail) differences.
    """
    diffs = []
    pos_ref = {k: i for i, k in enumerate(key_ref)}
    order = [pos_ref[k] for k in key_got]
    scale = None
    if row_scale and ulps:
        fl = [c for c in ref.columns if c in got.columns and ref[c].to_numpy().dtype.kind == "f" and not c.endswith("_id")]
        if fl:
            m = np.abs(np.nan_to_num(np.column_stack([ref[c].to_numpy()[order] for c in fl]).astype(float), nan=0.0, posinf=0.0, neginf=0.0))
            scale = m.max(axis=1)
    for c in ref.columns:
        if c in skip:
            continue
        if c not in got.columns:
            diffs.append((c, "missing", ""))
            continue
        a = ref[c].to_numpy()[order]
        b = got[c].to_numpy()
        if c.endswith("_id") and c != "p_id":
            if partition(a, key_got) != partition(b, key_got):
                diffs.append((c, "partition", f"{a.tolist()} vs {b.tolist()}"))
            continue
        ok = col_equal(a, b, ulps)
        if not ok.all() and scale is not None and a.dtype.kind == "f" and b.dtype.kind == "f":
            with np.errstate(invalid="ignore"):
                ok = ok | (np.abs(a.astype(float) - b.astype(float)) <= ulps * np.spacing(scale))
        if not ok.all():
            i = int(np.argmin(ok))
            diffs.append((c, "value", f"p_id={key_got[i]}: {a[i]!r} vs {b[i]!r}"))
        elif check_dtype and a.dtype.kind != b.dtype.kind:
            diffs.append((c, "dtype", f"{a.dtype} vs {b.dtype}"))
    return diffs


# ------------------------------------------------------------------ known crash (C08 finding)
def known_crash(date_iso, exc):
    """Signature of the recorded C08 finding if `exc` is exactly that crash, else None.

    2017-01-01..2017-06-30: `_ges_rente_zahlbetrag_ohne_deckel_m` (active from 2017-01-01) reads
    ges_rente['abzugsrate_hinzuverdienst'] whose first entry is dated 2017-07-01.  Checks other than
    C08 count such simulations as skipped (they cannot observe their property on a run that does not
    finish) and report the number; C08 itself reports the finding (one signature per change-date class).
    """
    ds = str(date_iso)
    if isinstance(exc, KeyError) and "abzugsrate_hinzuverdienst" in str(exc) and "2017-01-01" <= ds <= "2017-06-30":
        cls = "2017-01-01" if ds < "2017-04-01" else "2017-04-01"
        return f"missing-parameter:ges_rente.abzugsrate_hinzuverdienst:class-{cls}"
    return None
