"""Evidence files, VIOLATION / KNOWN-FINDING lines, replay artefacts."""
from __future__ import annotations

import hashlib
import json
import os
import time

from mc.harness import SEED, to_jsonable

VERIF = os.path.dirname(os.path.dirname(os.path.abspath(__file__)))
EVIDENCE_DIR = os.path.join(VERIF, "evidence")
REPLAY_DIR = os.path.join(VERIF, "replays")
FINDINGS_FILE = os.path.join(VERIF, "known_findings.json")


def load_findings(prop):
    try:
        with open(FINDINGS_FILE, encoding="utf-8") as fh:
            entries = json.load(fh)["findings"]
    except FileNotFoundError:
        entries = []
    known = {e["signature"]: e for e in entries if e["property"] == prop and e["status"] == "known"}
    return known


class Reporter:
    """Collects coverage counters, violations and samples for one check run."""

    def __init__(self, prop, tier, level="model_checking"):
        self.prop = prop
        self.tier = tier
        self.level = level
        self.t0 = time.time()
        self.known = load_findings(prop)
        self.violations = {}  # signature -> (case, message, count)
        self.known_hits = {}
        self.states = set()
        self.n_states_extra = 0
        self.transitions = 0
        self.validated = 0
        self.samples = []
        self.outcomes = set()
        self.extra = {}
        self.assumptions = []
        self.capped = None
        self.bound = {}

    # -- coverage -------------------------------------------------------------
    def state(self, key):
        """Register a canonical case (hashable / string)."""
        if not isinstance(key, (str, bytes, int, tuple)):
            key = json.dumps(to_jsonable(key), sort_keys=True)
        self.states.add(hash(key))

    def add_states(self, n):
        self.n_states_extra += int(n)

    def step(self, n=1, validated=None):
        self.transitions += int(n)
        self.validated += int(n if validated is None else validated)

    def outcome(self, o):
        self.outcomes.add(o if isinstance(o, (str, int, tuple, frozenset)) else json.dumps(to_jsonable(o), sort_keys=True))

    def sample(self, case, limit=4):
        if len(self.samples) < limit:
            self.samples.append(to_jsonable(case))

    # -- violations -----------------------------------------------------------
    def violation(self, signature, case, message=""):
        """Record a violation with a specific signature; de-duplicated by signature."""
        if signature in self.known:
            self.known_hits[signature] = self.known_hits.get(signature, 0) + 1
            return
        if signature in self.violations:
            c, m, n = self.violations[signature]
            self.violations[signature] = (c, m, n + 1)
        else:
            self.violations[signature] = (case, message, 1)

    def merge(self, part):
        """Merge a worker's partial result dict produced by `Partial.dump`."""
        for s in part.get("states", ()):
            self.states.add(s)
        self.n_states_extra += part.get("n_states", 0)
        self.transitions += part.get("transitions", 0)
        self.validated += part.get("validated", 0)
        for o in part.get("outcomes", ()):
            self.outcomes.add(o)
        for s in part.get("samples", ()):
            self.sample(s)
        for sig, case, msg in part.get("violations", ()):
            self.violation(sig, case, msg)
        for k, v in part.get("counters", {}).items():
            self.extra[k] = self.extra.get(k, 0) + v
        for k, v in part.get("sets", {}).items():
            cur = self.extra.setdefault("_set_" + k, set())
            cur.update(v)

    # -- finish ---------------------------------------------------------------
    def finish(self, rule, exhaustive=True):
        os.makedirs(EVIDENCE_DIR, exist_ok=True)
        os.makedirs(REPLAY_DIR, exist_ok=True)
        lines = []
        for sig in sorted(self.known_hits):
            lines.append(f"KNOWN-FINDING: property={self.prop} {sig} ({self.known[sig].get('what', '')}) hits={self.known_hits[sig]}")
        nviol = 0
        for sig in sorted(self.violations):
            case, msg, n = self.violations[sig]
            h = hashlib.sha1(sig.encode("utf-8")).hexdigest()[:12]
            path = os.path.join(REPLAY_DIR, f"{self.prop}-{h}.json")
            with open(path, "w", encoding="utf-8") as fh:
                json.dump(
                    {"property": self.prop, "signature": sig, "message": msg, "occurrences": n, "case": to_jsonable(case)},
                    fh,
                    indent=1,
                    ensure_ascii=False,
                )
            lines.append(f"VIOLATION property={self.prop} replay={path}")
            lines.append(f"  signature: {sig}")
            if msg:
                lines.append(f"  {str(msg)[:600]}")
            nviol += 1
        extra = {}
        for k, v in self.extra.items():
            if k.startswith("_set_"):
                extra["distinct_" + k[5:]] = len(v)
                extra[k[5:]] = sorted(map(str, v))[:25]
            else:
                extra[k] = v
        nstates = len(self.states) + self.n_states_extra
        cov = {
            "states": max(nstates, 0),
            "transitions": self.transitions,
            "traces_validated_against_impl": self.validated,
            "samples": self.samples or [{"note": "no sample recorded"}],
            "evaluations": self.transitions,
            "distinct_nontrivial": nstates,
            "distinct_outcomes": len(self.outcomes),
            "rule": rule,
            "exhaustive": bool(exhaustive and self.capped is None),
            "bound": to_jsonable(self.bound),
            "known_findings_hit": sorted(self.known_hits),
        }
        if self.capped:
            cov["capped"] = self.capped
        cov.update(to_jsonable(extra))
        ev = {
            "property_id": self.prop,
            "tier": self.tier,
            "seed": SEED,
            "level": self.level,
            "coverage": cov,
            "assumptions": self.assumptions,
            "wall_s": round(time.time() - self.t0, 2),
            "violations": nviol,
        }
        with open(os.path.join(EVIDENCE_DIR, f"{self.prop}.json"), "w", encoding="utf-8") as fh:
            json.dump(ev, fh, indent=1, ensure_ascii=False)
        print(
            f"[{self.prop} {self.tier}] states={nstates} transitions={self.transitions} "
            f"validated={self.validated} outcomes={len(self.outcomes)} violations={nviol} "
            f"known={len(self.known_hits)} wall={ev['wall_s']}s"
        )
        for ln in lines:
            print(ln)
        if nstates < 1 or self.transitions < 1:
            print(f"harness error: vacuous run for {self.prop}")
            return 2
        return 1 if nviol else 0


class Partial:
    """Picklable per-task accumulator used inside workers."""

    def __init__(self):
        self.d = {"states": set(), "n_states": 0, "transitions": 0, "validated": 0, "outcomes": set(),
                  "samples": [], "violations": [], "counters": {}, "sets": {}}
        self._sigs = set()

    def state(self, key):
        if not isinstance(key, (str, bytes, int, tuple)):
            key = json.dumps(to_jsonable(key), sort_keys=True)
        self.d["states"].add(hash(key))

    def add_states(self, n):
        self.d["n_states"] += n

    def step(self, n=1, validated=None):
        self.d["transitions"] += n
        self.d["validated"] += n if validated is None else validated

    def outcome(self, o):
        self.d["outcomes"].add(o if isinstance(o, (str, int, tuple, frozenset)) else json.dumps(to_jsonable(o), sort_keys=True))

    def sample(self, case, limit=2):
        if len(self.d["samples"]) < limit:
            self.d["samples"].append(to_jsonable(case))

    def violation(self, sig, case, msg=""):
        if sig in self._sigs:
            return
        self._sigs.add(sig)
        self.d["violations"].append((sig, to_jsonable(case), str(msg)[:1000]))

    def count(self, k, n=1):
        self.d["counters"][k] = self.d["counters"].get(k, 0) + n

    def setadd(self, k, v):
        self.d["sets"].setdefault(k, set()).add(v)

    def dump(self):
        return self.d
