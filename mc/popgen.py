"""The finite population universe: persons, households, pointer structures, dates."""
from __future__ import annotations

import collections
import datetime
import functools
import itertools
import re

import numpy as np
import pandas as pd

from mc import harness  # noqa: F401  (fixes sys.path)
from _gettsim.config import INTERNAL_PARAMS_GROUPS, RESOURCE_DIR, TYPES_INPUT_VARIABLES

POINTERS = [
    "p_id_elternteil_1",
    "p_id_elternteil_2",
    "p_id_kindergeld_empf",
    "p_id_erziehgeld_empf",
    "p_id_ehepartner",
    "p_id_einstandspartner",
    "p_id_betreuungsk_träger",
]


def person(pid, hh, alter, year, **kw):
    """One row with every documented input; all amounts dyadic."""
    d = {k: (False if t is bool else 0 if t is int else 0.0) for k, t in TYPES_INPUT_VARIABLES.items()}
    d.update(
        p_id=pid,
        hh_id=hh,
        alter=alter,
        geburtsjahr=year - alter,
        geburtsmonat=1,
        geburtstag=1,
        kind=alter < 18,
        in_ausbildung=alter < 18,
        mietstufe=3,
        jahr_renteneintr=year - alter + 67,
        monat_renteneintr=1,
        wohnfläche_hh=80.0,
        bruttokaltmiete_m_hh=600.0,
        heizkosten_m_hh=90.0,
        steuerklasse=1,
        immobilie_baujahr_hh=1990,
        arbeitsstunden_w=0.0,
    )
    for p in POINTERS:
        d[p] = -1
    d.update(kw)
    return d


def worker(pid, hh, alter, year, wage, **kw):
    base = dict(bruttolohn_m=float(wage), bruttolohn_vorj_m=float(wage), arbeitsstunden_w=40.0 if wage > 600 else 10.0 if wage > 0 else 0.0,
                sozialv_pflicht_5j=60.0, anwartschaftszeit=True, m_pflichtbeitrag=float(12 * max(alter - 20, 0)),
                y_pflichtbeitr_ab_40=float(max(alter - 40, 0)), entgeltp_west=float(max(alter - 20, 0)) * 0.75,
                grundr_zeiten=12 * max(alter - 20, 0), grundr_bew_zeiten=12 * max(alter - 20, 0), grundr_entgeltp=float(max(alter - 20, 0)) * 0.5)
    base.update(kw)
    return person(pid, hh, alter, year, **base)


def retiree(pid, hh, alter, year, ep, **kw):
    base = dict(rentner=True, entgeltp_west=float(ep), jahr_renteneintr=year - (alter - 65), monat_renteneintr=1,
                m_pflichtbeitrag=480.0, y_pflichtbeitr_ab_40=20.0, grundr_zeiten=420, grundr_bew_zeiten=400,
                grundr_entgeltp=float(ep) * 0.75, pflichtbeitr_8_in_10=True, höchster_bruttolohn_letzte_15_jahre_vor_rente_y=30000.0)
    base.update(kw)
    return person(pid, hh, alter, year, **base)


def _hh_common(rows, **kw):
    for r in rows:
        r.update(kw)
    return rows


# ------------------------------------------------------------------ household library
# Every builder returns rows of ONE household (or one pointer-closed set) with ids
# hh, 10*hh+i.  They are the "roles x structures" base cases; deviations are applied on top.


def hh_single(year, hh=1, wage=2200.0, **kw):
    return [worker(10 * hh, hh, 35, year, wage, **kw)]


def hh_couple_kids(year, hh=2, w1=2700.0, w2=450.0, married=True, rent=700.0, wealth=0.0):
    a, b, c, d = (10 * hh + i for i in range(4))
    rows = [
        worker(a, hh, 40, year, w1, p_id_einstandspartner=b, p_id_ehepartner=b if married else -1, gemeinsam_veranlagt=married,
               steuerklasse=3 if married else 1, vermögen_bedürft=wealth, ges_pflegev_hat_kinder=True),
        worker(b, hh, 38, year, w2, p_id_einstandspartner=a, p_id_ehepartner=a if married else -1, gemeinsam_veranlagt=married,
               steuerklasse=5 if married else 1, weiblich=True, ges_pflegev_hat_kinder=True),
        person(c, hh, 10, year, p_id_elternteil_1=a, p_id_elternteil_2=b, p_id_kindergeld_empf=a),
        person(d, hh, 3, year, p_id_elternteil_1=a, p_id_elternteil_2=b, p_id_kindergeld_empf=a,
               betreuungskost_m=150.0, p_id_betreuungsk_träger=b),
    ]
    return _hh_common(rows, bruttokaltmiete_m_hh=rent, wohnfläche_hh=90.0)


def hh_single_parent(year, hh=3, wage=1200.0):
    a, c, d, e = (10 * hh + i for i in range(4))
    rows = [
        worker(a, hh, 33, year, wage, alleinerz=True, weiblich=True, steuerklasse=2, ges_pflegev_hat_kinder=True),
        person(c, hh, 7, year, p_id_elternteil_1=a, p_id_kindergeld_empf=a, kind_unterh_anspr_m=300.0, kind_unterh_erhalt_m=100.0,
               betreuungskost_m=100.0, p_id_betreuungsk_träger=a),
        person(d, hh, 13, year, p_id_elternteil_2=a, p_id_kindergeld_empf=a, kind_unterh_anspr_m=350.0, kind_unterh_erhalt_m=350.0),
        person(e, hh, 0, year, p_id_elternteil_1=a, p_id_kindergeld_empf=a, p_id_erziehgeld_empf=a),
    ]
    rows[0].update(elterngeld_claimed=True, monate_elterngeldbezug=2, elterngeld_nettoeinkommen_vorjahr_m=1400.0,
                   elterngeld_zu_verst_eink_vorjahr_y_sn=20000.0)
    return _hh_common(rows, bruttokaltmiete_m_hh=500.0, wohnfläche_hh=70.0)


def hh_patchwork(year, hh=4, w1=1800.0, w2=0.0):
    # unmarried partners; child of a only, child of b only, adult child (19, in training)
    a, b, c, d, e = (10 * hh + i for i in range(5))
    rows = [
        worker(a, hh, 45, year, w1, p_id_einstandspartner=b, ges_pflegev_hat_kinder=True),
        worker(b, hh, 41, year, w2, p_id_einstandspartner=a, weiblich=True, ges_pflegev_hat_kinder=True, arbeitssuchend=w2 == 0.0,
               bruttolohn_vorj_m=2000.0, m_durchg_alg1_bezug=2.0),
        person(c, hh, 16, year, p_id_elternteil_1=a, p_id_kindergeld_empf=a, in_ausbildung=True, bruttolohn_m=300.0),
        person(d, hh, 12, year, p_id_elternteil_2=b, p_id_kindergeld_empf=b, kind_unterh_anspr_m=250.0, kind_unterh_erhalt_m=0.0),
        person(e, hh, 19, year, p_id_elternteil_1=b, p_id_kindergeld_empf=b, in_ausbildung=True, bruttolohn_m=800.0,
               eigenbedarf_gedeckt=True, kind=False),
    ]
    return _hh_common(rows, bruttokaltmiete_m_hh=900.0, wohnfläche_hh=110.0, mietstufe=5)


def hh_pensioners(year, hh=5, ep1=45.0, ep2=12.0):
    a, b = 10 * hh, 10 * hh + 1
    rows = [
        retiree(a, hh, 70, year, ep1, p_id_einstandspartner=b, p_id_ehepartner=b, gemeinsam_veranlagt=True, priv_rente_m=100.0),
        retiree(b, hh, 68, year, ep2, p_id_einstandspartner=a, p_id_ehepartner=a, gemeinsam_veranlagt=True, weiblich=True),
    ]
    return _hh_common(rows, bruttokaltmiete_m_hh=450.0, wohnfläche_hh=60.0)


def hh_poor_pensioner(year, hh=6, ep=8.0):
    a = 10 * hh
    rows = [retiree(a, hh, 72, year, ep, weiblich=True, schwerbeh_g=True, behinderungsgrad=60)]
    return _hh_common(rows, bruttokaltmiete_m_hh=380.0, wohnfläche_hh=45.0, heizkosten_m_hh=60.0)


def hh_three_gen(year, hh=7):
    g, p, c = 10 * hh, 10 * hh + 1, 10 * hh + 2
    rows = [
        retiree(g, hh, 75, year, 30.0, weiblich=True),
        worker(p, hh, 48, year, 1500.0, p_id_elternteil_1=g, alleinerz=True, ges_pflegev_hat_kinder=True, steuerklasse=2),
        person(c, hh, 15, year, p_id_elternteil_1=p, p_id_kindergeld_empf=p, kind_unterh_anspr_m=400.0, kind_unterh_erhalt_m=200.0),
    ]
    return _hh_common(rows, bruttokaltmiete_m_hh=800.0, wohnfläche_hh=100.0)


def hh_unemployed(year, hh=8):
    a = 10 * hh
    rows = [
        worker(a, hh, 52, year, 0.0, arbeitssuchend=True, bruttolohn_vorj_m=2500.0, m_durchg_alg1_bezug=3.0, sozialv_pflicht_5j=48.0,
               anwartschaftszeit=True, arbeitsstunden_w=0.0, vermögen_bedürft=5000.0, bürgerg_bezug_vorj=False)
    ]
    return _hh_common(rows, bruttokaltmiete_m_hh=400.0, wohnfläche_hh=50.0)


def hh_self_employed(year, hh=9):
    a, b = 10 * hh, 10 * hh + 1
    rows = [
        person(a, hh, 50, year, selbstständig=True, eink_selbst_m=4000.0, in_priv_krankenv=True, priv_rentenv_beitr_m=300.0,
               kapitaleink_brutto_m=250.0, eink_vermietung_m=-500.0, p_id_einstandspartner=b, p_id_ehepartner=b,
               gemeinsam_veranlagt=False, arbeitsstunden_w=45.0, steuerklasse=4),
        worker(b, hh, 47, year, 6000.0, p_id_einstandspartner=a, p_id_ehepartner=a, gemeinsam_veranlagt=False, weiblich=True,
               steuerklasse=4, wohnort_ost=False, sonstig_eink_m=100.0),
    ]
    return _hh_common(rows, bruttokaltmiete_m_hh=1500.0, wohnfläche_hh=140.0, bewohnt_eigentum_hh=False, mietstufe=6)


def hh_erwerbsgemindert(year, hh=11):
    a = 10 * hh
    rows = [
        person(a, hh, 50, year, voll_erwerbsgemind=True, rentner=True, jahr_renteneintr=year - 2, monat_renteneintr=1,
               entgeltp_west=20.0, entgeltp_ost=4.0, m_pflichtbeitrag=300.0, behinderungsgrad=50, wohnort_ost=True,
               grundr_zeiten=300, grundr_bew_zeiten=280, grundr_entgeltp=10.0)
    ]
    return _hh_common(rows, bruttokaltmiete_m_hh=350.0, wohnfläche_hh=48.0, wohnort_ost=True)


def hh_parental_leave(year, hh=12):
    a, b, c = 10 * hh, 10 * hh + 1, 10 * hh + 2
    rows = [
        worker(a, hh, 34, year, 3500.0, p_id_einstandspartner=b, p_id_ehepartner=b, gemeinsam_veranlagt=True, steuerklasse=3,
               ges_pflegev_hat_kinder=True),
        worker(b, hh, 31, year, 0.0, p_id_einstandspartner=a, p_id_ehepartner=a, gemeinsam_veranlagt=True, steuerklasse=5,
               weiblich=True, elterngeld_claimed=True, monate_elterngeldbezug=3, elterngeld_nettoeinkommen_vorjahr_m=1800.0,
               elterngeld_zu_verst_eink_vorjahr_y_sn=60000.0, ges_pflegev_hat_kinder=True, bruttolohn_vorj_m=2600.0),
        person(c, hh, 0, year, p_id_elternteil_1=a, p_id_elternteil_2=b, p_id_kindergeld_empf=b, p_id_erziehgeld_empf=b),
    ]
    rows[0]["elterngeld_zu_verst_eink_vorjahr_y_sn"] = 60000.0
    return _hh_common(rows, bruttokaltmiete_m_hh=850.0, wohnfläche_hh=85.0, mietstufe=4)


def hh_young_adult(year, hh=13):
    a, c = 10 * hh, 10 * hh + 1
    rows = [
        worker(a, hh, 58, year, 1000.0, ges_pflegev_hat_kinder=True, wohnort_ost=True),
        person(c, hh, 22, year, p_id_elternteil_2=a, p_id_kindergeld_empf=a, in_ausbildung=True, kind=False, bruttolohn_m=520.0,
               arbeitsstunden_w=10.0, wohnort_ost=True),
    ]
    return _hh_common(rows, bruttokaltmiete_m_hh=550.0, wohnfläche_hh=65.0, wohnort_ost=True, mietstufe=2)


def hh_parent_elsewhere(year, hh=14):
    # child lives with the mother (hh), father pays/receives nothing in hh+1 and gets the Kindergeld
    a, c, f = 10 * hh, 10 * hh + 1, 10 * (hh + 1)
    rows = [
        worker(a, hh, 36, year, 800.0, alleinerz=True, weiblich=True, ges_pflegev_hat_kinder=True),
        person(c, hh, 5, year, p_id_elternteil_1=a, p_id_elternteil_2=f, p_id_kindergeld_empf=f, kind_unterh_anspr_m=300.0,
               kind_unterh_erhalt_m=300.0),
        worker(f, hh + 1, 39, year, 3500.0, ges_pflegev_hat_kinder=True, bruttokaltmiete_m_hh=650.0, wohnfläche_hh=55.0),
    ]
    for r in rows[:2]:
        r.update(bruttokaltmiete_m_hh=480.0, wohnfläche_hh=58.0)
    return rows


def hh_two_selfsufficient(year, hh=16):
    """Parent with two young-adult children who both cover their own needs (two extra needs units in one family)."""
    a, c, d = 10 * hh, 10 * hh + 1, 10 * hh + 2
    rows = [
        worker(a, hh, 50, year, 1300.0, ges_pflegev_hat_kinder=True, weiblich=True),
        person(c, hh, 17, year, p_id_elternteil_1=a, p_id_kindergeld_empf=a, in_ausbildung=True, bruttolohn_m=1100.0, eigenbedarf_gedeckt=True),
        person(d, hh, 19, year, p_id_elternteil_1=a, p_id_kindergeld_empf=a, in_ausbildung=True, bruttolohn_m=950.0, eigenbedarf_gedeckt=True, kind=False),
    ]
    return _hh_common(rows, bruttokaltmiete_m_hh=700.0, wohnfläche_hh=85.0)


LIBRARY = collections.OrderedDict(
    single=hh_single,
    couple_kids=hh_couple_kids,
    single_parent=hh_single_parent,
    patchwork=hh_patchwork,
    pensioners=hh_pensioners,
    poor_pensioner=hh_poor_pensioner,
    three_gen=hh_three_gen,
    unemployed=hh_unemployed,
    self_employed=hh_self_employed,
    erwerbsgemindert=hh_erwerbsgemindert,
    parental_leave=hh_parental_leave,
    young_adult=hh_young_adult,
    parent_elsewhere=hh_parent_elsewhere,
    two_selfsufficient=hh_two_selfsufficient,
)


def library_rows(name, year, **kw):
    return LIBRARY[name](year, **kw)


def frame(rows):
    """DataFrame with the documented dtypes."""
    df = pd.DataFrame(rows)
    for c in df.columns:
        t = TYPES_INPUT_VARIABLES.get(c)
        if t is float:
            df[c] = df[c].astype(float)
        elif t is int:
            df[c] = df[c].astype(np.int64)
        elif t is bool:
            df[c] = df[c].astype(bool)
    return df


def combined(names, year):
    rows = []
    for n in names:
        rows += library_rows(n, year)
    return rows


# ------------------------------------------------------------------ attribute alphabets
def alphabet(col, year):
    """Alternatives for one input column (deviation alphabet)."""
    t = TYPES_INPUT_VARIABLES[col]
    if t is bool:
        return [False, True]
    special = {
        "alter": [0, 1, 2, 3, 6, 13, 14, 17, 18, 24, 25, 26, 35, 55, 58, 62, 63, 64, 65, 66, 67, 70, 100],
        "mietstufe": [1, 2, 3, 4, 5, 6, 7] if year >= 2020 else [1, 2, 3, 4, 5, 6],
        "steuerklasse": [1, 2, 3, 4, 5, 6],
        "behinderungsgrad": [0, 20, 50, 100],
        "monate_elterngeldbezug": [0, 2, 12, 14],
        "geburtsmonat": [1, 6, 12],
        "geburtstag": [1, 15, 28],
        "immobilie_baujahr_hh": [1950, 1970, 1990, 2005],
        "grundr_zeiten": [0, 395, 396, 420, 480],
        "grundr_bew_zeiten": [0, 400, 480],
        "vermögen_bedürft": [0.0, 5000.0, 15000.0, 40000.0, 100000.0, 1000000.0],
        "eink_vermietung_m": [-500.0, 0.0, 300.0],
        "bruttokaltmiete_m_hh": [250.0, 600.0, 1500.0],
        "heizkosten_m_hh": [0.0, 90.0, 250.0],
        "wohnfläche_hh": [30.0, 80.0, 160.0],
        "arbeitsstunden_w": [0.0, 10.0, 20.0, 40.0],
        "entgeltp_west": [0.0, 8.0, 30.0, 60.0],
        "entgeltp_ost": [0.0, 8.0, 30.0],
        "grundr_entgeltp": [0.0, 5.0, 14.0, 30.0],
        "sozialv_pflicht_5j": [0.0, 11.0, 12.0, 24.0, 60.0],
        "m_durchg_alg1_bezug": [0.0, 2.0, 12.0, 30.0],
        "jahr_renteneintr": [year - 5, year, year + 1, year + 20],
        "monat_renteneintr": [1, 7, 12],
        "geburtsjahr": [],
    }
    if col in special:
        return special[col]
    if t is float:
        if col.startswith("m_") or col.startswith("y_"):
            return [0.0, 12.0, 60.0, 240.0, 540.0]
        if col.endswith("_y") or col.endswith("_y_sn"):
            return [0.0, 9000.0, 30000.0, 250000.0, 600000.0]
        return [0.0, 200.0, 450.0, 520.0, 538.0, 800.0, 1000.0, 1200.0, 1500.0, 1800.0, 2200.0, 2700.0, 3500.0, 6000.0, 20000.0]
    if t is int:
        return [0, 1, 2]
    return []


# ------------------------------------------------------------------ dates
@functools.lru_cache(maxsize=1)
def change_dates():
    """All dates at which something can change: YAML keys and @policy_info bounds."""
    import yaml

    dates = set()

    def walk(node):
        if isinstance(node, dict):
            for k, v in node.items():
                if isinstance(k, datetime.date):
                    dates.add(k)
                walk(v)

    for g in INTERNAL_PARAMS_GROUPS:
        raw = yaml.load((RESOURCE_DIR / "parameters" / f"{g}.yaml").read_text(encoding="utf-8"), Loader=yaml.CLoader)
        walk(raw)
    pat = re.compile(r"(start_date|end_date)\s*=\s*\"(\d{4}-\d{2}-\d{2})\"")
    lit = re.compile(r"[\"'](\d{4}-\d{2}-\d{2})[\"']")
    for path in RESOURCE_DIR.rglob("*.py"):
        if "_tests" in str(path) or path.name in ("synthetic.py", "visualization.py"):
            continue
        text = path.read_text(encoding="utf-8")
        decorated = {ds for _, ds in pat.findall(text)}
        for ds in lit.findall(text):  # any other date literal in code may open a window of its own
            if ds in decorated:
                continue
            try:
                d = datetime.date.fromisoformat(ds)
            except ValueError:
                continue
            if 1 < d.year < 9999:
                dates.add(d)
        for kind, ds in pat.findall(text):
            d = datetime.date.fromisoformat(ds)
            if kind == "end_date":
                if d.year < 9999:
                    d = d + datetime.timedelta(days=1)
                else:
                    continue
            if d.year > 1:
                dates.add(d)
    return sorted(dates)


def d15():
    """Change dates >= 2015-01-01: one representative (first day) per equivalence class."""
    cd = [d for d in change_dates() if d >= datetime.date(2015, 1, 1)]
    if datetime.date(2015, 1, 1) not in cd:
        cd = [datetime.date(2015, 1, 1), *cd]
    return cd


def d15_classes():
    """(first_day, last_day) of each class >= 2015; last class ends one year after its start."""
    cd = d15()
    out = []
    for i, d in enumerate(cd):
        last = cd[i + 1] - datetime.timedelta(days=1) if i + 1 < len(cd) else d + datetime.timedelta(days=365)
        out.append((d, last))
    return out


def quick_dates(n=3):
    cd = d15()
    if n >= len(cd):
        return cd
    idx = sorted({round(i * (len(cd) - 1) / (n - 1)) for i in range(n)})
    return [cd[i] for i in idx]


# ------------------------------------------------------------------ pointer structures (C12 / C01)
AGES = {"K": 10, "k": 3, "Y": 24, "Z": 25, "A": 40, "R": 70}  # Y / Z sit on both sides of the under-25 bound


def structures_for_roles(rs, two_households=True):
    """All labelled pointer structures for one role tuple."""
    n = len(rs)
    ages = [AGES[r] for r in rs]
    hhs = [h for h in itertools.product(range(2 if two_households else 1), repeat=n) if h[0] == 0]
    opts = []
    for c in range(n):
        older = [p for p in range(n) if ages[p] - ages[c] >= 15]
        o = [(-1, -1)] + [(p, -1) for p in older] + [(-1, p) for p in older] + [(p, q) for p in older for q in older if p < q]
        opts.append(o)
    pars = list(itertools.product(*opts))
    for hh in hhs:
        cand = [(i, j) for i in range(n) for j in range(i + 1, n) if ages[i] >= 18 and ages[j] >= 18 and hh[i] == hh[j]]
        for m in range(0, n // 2 + 1):
            for match in itertools.combinations(cand, m):
                used = [x for p in match for x in p]
                if len(set(used)) != len(used):
                    continue
                partner = [-1] * n
                for i, j in match:
                    partner[i] = j
                    partner[j] = i
                for par in pars:
                    yield rs, ages, hh, partner, par


def structures(n, roles="KkYAR", two_households=True):
    """All labelled pointer structures on n persons (roles, hh, partner matching, parents)."""
    for rs in itertools.product(roles, repeat=n):
        yield from structures_for_roles(rs, two_households)


def children_of(par, n):
    ch = collections.defaultdict(list)
    for c, (a, b) in enumerate(par):
        if a >= 0:
            ch[a].append(c)
        if b >= 0:
            ch[b].append(c)
    return ch


def structure_valid(ages, hh, partner, par, n):
    """Scoping rules of DESIGN 1.1 (where the textual unit definitions are unambiguous)."""
    ch = children_of(par, n)
    for c in range(n):
        is_fg_child = any(p >= 0 and hh[p] == hh[c] for p in par[c]) and ages[c] < 25 and not ch[c]
        if is_fg_child and partner[c] >= 0:
            return False
        if partner[c] >= 0 and partner[c] in par[c]:
            return False
        a, b = par[c]
        if a >= 0 and b >= 0 and hh[a] == hh[c] and hh[b] == hh[c] and partner[a] != b:
            return False
    return True


# ------------------------------------------------------------------ deviations (k = 1 ... )
ADULT_ONLY_BOOL = [
    "weiblich", "selbstständig", "ges_pflegev_hat_kinder", "in_priv_krankenv", "in_ausbildung", "schwerbeh_g", "pflichtbeitr_8_in_10",
    "arbeitsl_1y_past_585", "vertra_arbeitsl_1997", "vertra_arbeitsl_2006", "anwartschaftszeit", "arbeitssuchend", "bürgerg_bezug_vorj",
    "budgetsatz_erzieh", "voll_erwerbsgemind", "teilw_erwerbsgemind", "elterngeld_claimed",
]
CHILD_FLOATS = ["bruttolohn_m", "kind_unterh_anspr_m", "kind_unterh_erhalt_m", "betreuungskost_m", "vermögen_bedürft", "kapitaleink_brutto_m"]
SKIP_COLS = {"p_id", "hh_id", "geburtsjahr", "kind", "alleinerz", *POINTERS}
HH_LEVEL = {"wohnort_ost", "mietstufe"}


def _is_fg_child(rows, i):
    r = rows[i]
    by = {x["p_id"]: x for x in rows}
    has_kids = any(x["p_id_elternteil_1"] == r["p_id"] or x["p_id_elternteil_2"] == r["p_id"] for x in rows)
    par = [by[p] for p in (r["p_id_elternteil_1"], r["p_id_elternteil_2"]) if p >= 0 and p in by]
    return r["alter"] < 25 and not has_kids and any(p["hh_id"] == r["hh_id"] for p in par)


def _age_ok(rows, i, new_age):
    r = rows[i]
    by = {x["p_id"]: x for x in rows}
    for p in (r["p_id_elternteil_1"], r["p_id_elternteil_2"]):
        if p >= 0 and p in by and by[p]["alter"] - new_age < 15:
            return False
    for x in rows:
        if r["p_id"] in (x["p_id_elternteil_1"], x["p_id_elternteil_2"]) and new_age - x["alter"] < 15:
            return False
    if (r["p_id_einstandspartner"] >= 0 or r["p_id_ehepartner"] >= 0) and new_age < 18:
        return False
    if r["eigenbedarf_gedeckt"] and new_age >= 25:
        return False
    if r["alleinerz"] and new_age < 18:
        return False
    return True


def deviations(rows, year, reduced=False, cols=None, max_alts=None, individual=False):
    """Yield (row index, column, value, new rows): one valid single-attribute deviation each."""
    import copy

    for i, r in enumerate(rows):
        adult = r["alter"] >= 18
        for col, t in TYPES_INPUT_VARIABLES.items():
            if col in SKIP_COLS or (cols is not None and col not in cols):
                continue
            alts = [a for a in alphabet(col, year) if a != r[col]]
            if reduced and len(alts) > 2:
                alts = [alts[0], alts[len(alts) // 2], alts[-1]] if len(alts) > 3 else alts
            if max_alts is not None:
                alts = alts[-max_alts:]
            hh_level = col.endswith("_hh") or (col in HH_LEVEL and not individual)
            if hh_level and any(x["hh_id"] == r["hh_id"] for x in rows[:i]):
                continue  # once per household
            if t is bool and col in ADULT_ONLY_BOOL and not adult:
                continue
            if t is float and not adult and col not in CHILD_FLOATS and not hh_level:
                continue
            if t is int and not adult and col not in ("alter", "geburtsmonat", "geburtstag", "behinderungsgrad") and not hh_level:
                continue
            if col == "rentner" and not adult:
                continue
            if col in ("jahr_renteneintr", "monat_renteneintr") and not r["rentner"]:
                continue
            if col == "gemeinsam_veranlagt" and r["p_id_ehepartner"] < 0:
                continue
            if col == "eigenbedarf_gedeckt" and not _is_fg_child(rows, i):
                continue
            if col == "steuerklasse" and not adult:
                continue
            if col == "monate_elterngeldbezug" and not adult:
                continue
            for v in alts:
                new = copy.deepcopy(rows)
                if col == "alter":
                    if not _age_ok(rows, i, v) or (adult != (v >= 18)):
                        continue
                    if r["rentner"]:
                        # a pension recipient keeps the recorded retirement year and insurance record: the new age must leave them feasible
                        # (entry into the pension as an adult, contribution months not longer than the working life before it)
                        entry_age = r["jahr_renteneintr"] - (year - v)
                        months = r.get("m_pflichtbeitrag", 0.0) + r.get("m_freiw_beitrag", 0.0)
                        if entry_age < 20 or months > (entry_age - 15) * 12:
                            continue
                    new[i]["alter"] = v
                    new[i]["geburtsjahr"] = year - v
                    if not adult:
                        new[i]["kind"] = v < 18
                    if r["rentner"] is False and v >= 18:
                        new[i]["jahr_renteneintr"] = year - v + 67
                elif hh_level:
                    for x in new:
                        if x["hh_id"] == r["hh_id"]:
                            x[col] = v
                elif col == "gemeinsam_veranlagt":
                    for x in new:
                        if x["p_id"] in (r["p_id"], r["p_id_ehepartner"]):
                            x[col] = v
                elif col == "rentner":
                    new[i][col] = v
                    if v:  # somebody who draws a pension (old-age or reduced-earning-capacity) has retired already
                        new[i]["jahr_renteneintr"] = min(new[i]["jahr_renteneintr"], year - 1)
                        new[i]["entgeltp_west"] = max(new[i]["entgeltp_west"], 10.0)
                else:
                    new[i][col] = v
                yield i, col, v, new
