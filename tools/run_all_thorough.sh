#!/bin/bash
# runs every thorough check sequentially; prints one line per check plus violations
for id in ${@:-C07 C10 C18 C11 C12 C09 C13 C19 C20 C14 C02 C17 C05 C04 C06 C08 C16 C15 C03 C01}; do
  s=$(date +%s)
  out=$(/venv/bin/python -m mc $id --tier thorough 2>&1); rc=$?
  echo "$id rc=$rc $(( $(date +%s) - s ))s $(echo "$out" | grep -m1 '^\[')"
  echo "$out" | grep -A2 "^VIOLATION\|harness error" | head -12
done
