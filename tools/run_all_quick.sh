#!/bin/bash
# runs every quick check on /repo with the given VERIF_SEED, prints one line per check
seed=${1:-0}
for id in C01 C02 C03 C04 C05 C06 C07 C08 C09 C10 C11 C12 C13 C14 C15 C16 C17 C18 C19 C20; do
  out=$(cd /verif && VERIF_SEED=$seed /venv/bin/python -m mc $id --tier quick 2>&1); rc=$?
  echo "seed=$seed $id rc=$rc $(echo "$out" | grep -m1 '^\[')"
  echo "$out" | grep "^VIOLATION\|harness error" | head -3
done
