#!/bin/bash
# usage: tools/mutant.sh <patch.diff> [--suite] <ID> [<ID> ...]
# Applies a patch to a scratch copy of /repo (never to /repo), runs the listed quick checks against it
# (VERIF_REPO), optionally the pinned test suite, and removes the copy.
set -u
patch=$(realpath "$1"); shift
suite=0; if [ "${1:-}" = "--suite" ]; then suite=1; shift; fi
tmp=$(mktemp -d /tmp/mut.XXXXXX)
rsync -a --exclude .git --exclude __pycache__ /repo/ "$tmp/"
( cd "$tmp" && patch -p1 --quiet < "$patch" ) || { echo "patch failed"; rm -rf "$tmp"; exit 3; }
mkdir -p /tmp/mut_evidence
rc_all=0
for id in "$@"; do
  cp /verif/evidence/$id.json /tmp/mut_evidence/$id.keep 2>/dev/null
  out=$(cd /verif && VERIF_REPO="$tmp" /venv/bin/python -m mc "$id" --tier "${TIER:-quick}" 2>&1); rc=$?
  echo "== $id rc=$rc"; echo "$out" | grep -E "^\[|VIOLATION|signature|KNOWN|harness error" | head -${LINES_MAX:-12}
  cp /tmp/mut_evidence/$id.keep /verif/evidence/$id.json 2>/dev/null
done
if [ $suite = 1 ]; then python3 /verif/tools/run_suite.py "$tmp" | tail -4; fi
rm -rf "$tmp"
