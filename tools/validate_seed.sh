#!/bin/bash
# usage: tools/validate_seed.sh <seed_dir> <name> <property> [checks...]   (default: all 20 checks)
# Confirms a seeded change (patch.diff + demo.py): applies to a scratch copy of /repo, demo passes on /repo and fails on the copy,
# pinned suite still green on the copy; then runs the quick checks against the copy and records which ones report a violation.
set -u
seed=$(realpath "$1"); name=$2; prop=$3; shift 3
checks=${@:-C01 C02 C03 C04 C05 C06 C07 C08 C09 C10 C11 C12 C13 C14 C15 C16 C17 C18 C19 C20}
tmp=$(mktemp -d /tmp/seedval.XXXXXX)
git -C /repo archive HEAD | tar -x -C "$tmp"
( cd "$tmp" && git init -q . && git apply --whitespace=nowarn "$seed/patch.diff" ) || { echo "PATCH DOES NOT APPLY"; rm -rf "$tmp"; exit 3; }
PYTHONPATH=/repo/src /venv/bin/python "$seed/demo.py" > "$tmp/demo_clean.log" 2>&1; rc_clean=$?
PYTHONPATH="$tmp/src" /venv/bin/python "$seed/demo.py" > "$tmp/demo_seeded.log" 2>&1; rc_seeded=$?
echo "demo on /repo: rc=$rc_clean ; demo on seeded copy: rc=$rc_seeded"
suite=$(python3 /verif/tools/run_suite.py "$tmp" | tail -3 | tr '\n' ' ')
echo "suite on seeded copy: $suite"
mkdir -p /tmp/mut_evidence
caught=""; missed=""
for id in $checks; do
  cp /verif/evidence/$id.json /tmp/mut_evidence/$id.keep 2>/dev/null
  out=$(cd /verif && VERIF_REPO="$tmp" /venv/bin/python -m mc "$id" --tier quick 2>&1); rc=$?
  cp /tmp/mut_evidence/$id.keep /verif/evidence/$id.json 2>/dev/null
  nsig=$(echo "$out" | grep -c "^VIOLATION")
  first=$(echo "$out" | grep -m2 "signature:" | tr '\n' ' ' | cut -c1-220)
  echo "  $id rc=$rc violations=$nsig $first"
  if [ $rc = 1 ]; then caught="$caught $id"; elif [ $rc = 0 ]; then missed="$missed $id"; else missed="$missed $id(rc$rc)"; fi
done
echo "CAUGHT BY:$caught"
dest=/verif/seeded/$name
mkdir -p "$dest"; cp "$seed/patch.diff" "$seed/demo.py" "$dest/"; [ -f "$seed/notes.md" ] && cp "$seed/notes.md" "$dest/"
python3 - "$dest" "$name" "$prop" "$rc_clean" "$rc_seeded" "$suite" "$caught" <<'PY'
import json,sys
dest,name,prop,rc_clean,rc_seeded,suite,caught=sys.argv[1:8]
meta={"name":name,"property":prop,"demo_rc_on_repo":int(rc_clean),"demo_rc_on_seeded_tree":int(rc_seeded),"suite_on_seeded_tree":suite.strip(),
      "quick_checks_reporting_violation":caught.split(),"ran":"tools/validate_seed.sh (patch applied to an archive of /repo HEAD outside /repo; demo on both trees; tools/run_suite.py; quick checks with VERIF_REPO)"}
try:
    old=json.load(open(dest+"/meta.json")); meta={**old,**meta}
except Exception: pass
json.dump(meta,open(dest+"/meta.json","w"),indent=1,ensure_ascii=False)
PY
rm -rf "$tmp"
