#!/usr/bin/env python3
"""Run gettsim's pinned test suite on a tree and compare with BASELINE.json's stable_pass set.

usage: run_suite.py [repo_dir]     (default /repo) ; exit 0 iff every stable_pass test passed.
"""
import json, os, subprocess, sys, tempfile, xml.etree.ElementTree as ET

repo = os.path.abspath(sys.argv[1] if len(sys.argv) > 1 else "/repo")
base = json.load(open("/root/.vp/BASELINE.json"))
want = set(base["stable_pass"])
fd, xml = tempfile.mkstemp(suffix=".xml", dir="/var/tmp"); os.close(fd)
env = dict(os.environ, PYTHONPATH=os.path.join(repo, "src"))
env.pop("GETTSIM_VERIF", None)
cmd = ["/venv/bin/python", "-m", "pytest", "-q", "-p", "no:cacheprovider", "--timeout=900", "--continue-on-collection-errors",
       "-n", "16", f"--junitxml={xml}", "src/_gettsim_tests"]
r = subprocess.run(cmd, cwd=repo, env=env, capture_output=True, text=True)
passed = set()
for tc in ET.parse(xml).getroot().iter("testcase"):
    if not any(ch.tag in ("failure", "error", "skipped") for ch in tc):
        passed.add(f"{tc.get('classname')}::{tc.get('name')}")
os.unlink(xml)
missing = sorted(want - passed)
print(r.stdout.strip().splitlines()[-1] if r.stdout.strip() else r.stderr[-500:])
print(f"stable_pass={len(want)} passed_now={len(passed)} baseline_tests_not_passing={len(missing)}")
for m in missing[:20]:
    print("  NOT PASSING:", m)
sys.exit(1 if missing else 0)
