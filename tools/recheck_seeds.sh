#!/bin/bash
# Re-runs, for every seeded change, the quick check of the property it breaks against a scratch copy of /repo HEAD with the patch applied.
# Prints one line per seed; a seed whose own check exits 0 is a regression of detection.
for d in /verif/seeded/*/; do
  name=$(basename "$d"); prop=$(python3 -c "import json;print(json.load(open('$d/meta.json'))['property'])")
  tmp=$(mktemp -d /tmp/seedre.XXXXXX)
  git -C /repo archive HEAD | tar -x -C "$tmp"
  if ! ( cd "$tmp" && git init -q . && git apply --whitespace=nowarn "$d/patch.diff" ) 2>/dev/null; then echo "$name $prop PATCH-DOES-NOT-APPLY"; rm -rf "$tmp"; continue; fi
  cp /verif/evidence/$prop.json /tmp/mut_evidence_$prop.keep 2>/dev/null
  out=$(cd /verif && VERIF_REPO="$tmp" /venv/bin/python -m mc "$prop" --tier quick 2>&1); rc=$?
  cp /tmp/mut_evidence_$prop.keep /verif/evidence/$prop.json 2>/dev/null
  echo "$name $prop rc=$rc $(echo "$out" | grep -m1 'signature:' | cut -c1-120)"
  rm -rf "$tmp"
done
